#!/bin/bash
# Runs every registered check at the given tier (default quick) and prints one line per check.
cd "$(dirname "$0")"
tier=${1:-quick}
fail=0
for id in $(/venv/bin/python -c "import json; print(' '.join(c['property_id'] for c in json.load(open('MANIFEST.json'))['checks']))"); do
  start=$(date +%s)
  out=$(./mcheck check $id --tier $tier 2>&1); rc=$?
  echo "$id rc=$rc $(( $(date +%s) - start ))s :: $(echo "$out" | tail -1 | cut -c1-220)"
  if [ $rc -ne 0 ]; then fail=1; echo "$out" | grep -E "VIOLATION|HARNESS" | head -3; fi
done
exit $fail
