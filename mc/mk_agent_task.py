"""Creates a scratch worktree + TASK.md (property text only) for a mutation sub-agent: python -m mc.mk_agent_task C01 [suffix]"""
import json, os, subprocess, sys
pid = sys.argv[1]; suffix = sys.argv[2] if len(sys.argv) > 2 else ''
wt = '/tmp/wt/%s%s' % (pid, suffix)
props = {json.loads(l)['id']: json.loads(l) for l in open('/verif/properties.jsonl')}
p = props[pid]
subprocess.check_call(['git', '-C', '/repo', 'worktree', 'add', '-q', '--detach', wt, 'HEAD'])
extra = sys.argv[3] if len(sys.argv) > 3 else ''
task = f"""# Task: seed realistic property-breaking changes into a Python library

You work ONLY inside this directory: `{wt}` — a scratch git worktree of the library "playback"
(Optibus/playback: a decorator framework that records intercepted inputs/outputs of service operations to
"cassettes" (memory / file / S3) and replays them for regression comparison). Never read or write `/repo` or `/verif`.
There is no network. Python is `/venv/bin/python` (3.12). Read README.md and the code under `playback/` first.

## The property you must break

**{p['title']}**

Statement: {p['statement']}

It is claimed to hold: {p['quantifier']['text']}

Code it is anchored in: {', '.join(p['anchors']['files'])}

## What to produce

Up to THREE different changes to the library source (files under `playback/` only; never touch `tests/`), each of which
makes the property FALSE while
 1. the library still imports and
 2. the existing test suite still passes exactly as before. Run it with
    `cd {wt} && /venv/bin/python -m pytest -q -p no:cacheprovider --timeout=900 --continue-on-collection-errors`
    On the unchanged tree this prints `2 failed, 105 passed, ... 1 error` (the 2 failures
    `*_no_arguments_raise_exception` and the S3 collection error are pre-existing and expected). With your change the
    same 105 tests must still pass and nothing else may start failing.

Each change must be REALISTIC (the kind of slip a maintainer makes in a refactor, an "optimisation", a clean-up or a
feature addition — not sabotage that is obviously wrong at a glance) and SUBTLE: it must need something specific to
manifest — a particular thread interleaving, a crash/fault at a particular point, a multi-step sequence of operations,
an unusual input/configuration, or two cooperating sites that each look fine alone. A change that ordinary use of the
library would expose at once is not wanted. The three changes should use different mechanisms / touch different code
paths. {extra}

For each change k = 1, 2, 3 write into `{wt}/_out/<k>/`:
 * `patch.diff` — output of `git diff` against HEAD (only files under `playback/`), applicable with `git apply`;
 * `demo.py` — a standalone, deterministic demonstration, run as `PYTHONPATH=<checkout root> /venv/bin/python demo.py`
   (it must import `playback` from PYTHONPATH and `assert playback.__file__` is under that root). It prints `PASS` and
   exits 0 on the unchanged code, and prints `FAIL: <what was observed>` and exits 1 with your change applied. It must not
   depend on timing luck: if a thread interleaving is needed, force it (events/barriers/monkeypatched hooks), if a fault is
   needed, inject it. No network, no S3 (if S3 code is involved, fake `boto3` inside the demo).
 * `meta.json` — {{"property": "{pid}", "summary": "...", "needs_to_manifest": "...", "files_touched": [...],
   "tests": "<the pytest summary line you observed with the change applied>"}}

Procedure per change: edit -> run the test suite (must be 105 passed, same 2 failed + 1 error) -> run demo.py with the
change (must FAIL) -> save patch.diff -> `git checkout -- playback` -> run demo.py again on the clean tree (must PASS).
When you finish the worktree must be clean except for `_out/`. Finally reply with a short list: for each change one line
saying what it does and what it needs in order to manifest. If you cannot find a change satisfying all conditions, say so
rather than relaxing them.
"""
open(os.path.join(wt, 'TASK.md'), 'w').write(task)
print(wt)
