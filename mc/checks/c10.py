"""C10 - lookup returns exactly the matching recordings, identically on all cassettes."""
from __future__ import annotations

import copy
import itertools
import os

from mc import cassettes, fakes3
from mc.checks.c14 import ref_match
from mc.core import viol

ID = 'C10'
LEVEL = 'model_checking'
RULE = ('every set of up to 3 saved recordings over 12 recording kinds (categories Op / OpX / Op_X / B that are prefixes of one another or '
        'contain underscores; metadata absent / {m:1} / {m:2,s:ab}; incomplete flag absent / False / True / None) x every query (5 '
        'categories x 13 filters x limits None/1/2/5 x ordered/random through iter_recording_ids, and the studio lookup with and without '
        'skip-incomplete) on 10 cassette configurations (memory; file with sorted and reversed directory listing and in a directory whose name contains pattern metacharacters; S3 with key prefix '
        "'', 'p', 'pp', 'run_metadata', 'fullish/x' in one shared fake bucket holding foreign recordings; read-only S3 view). states = distinct saved sets. "
        'Non-trivial = query whose reference answer is a proper, non-empty subset of the saved recordings.')
ASSUMPTIONS = ['limit=0 is outside the domain (degenerate)', 'listing ORDER is not part of the claim, only the set / the size under a limit',
               'reference matcher = the C14 reference', 'S3 on an in-memory fake bucket listing in lexicographic key order']

INC = '_tape_recorder_incomplete_recording'
KINDS = [('Op', {}), ('Op', {'m': 1}), ('Op', {'m': 2, 's': 'ab'}), ('OpX', {'m': 1}), ('Op_X', {'m': 1}), ('B', {'m': 2, 's': 'ab'}),
         ('Op', {'m': 1, INC: False}), ('Op', {'m': 1, INC: True}), ('Op', {'m': 2, INC: None}), ('OpX', {INC: True}), ('Op_X', {'s': 'b'}),
         ('Op', {'m': 1, 'ctx': {'k': [1], 'n': {'z': 0}}})]
CATS = ['Op', 'OpX', 'Op_X', 'B', 'Zz']
FILTERS = [None, {'m': 1}, {'m': [1, 2]}, {'s': 'a*'}, {'m': {'operator': '>', 'value': 1}}, {'absent_key': None}, {'absent_key': 1},
           {INC: [False, None]}, {'s': [['zz', None], 'q']},
           {'s': 'a*', 'm': 1}, {'m': 1, 's': 'a*'}, {'m': 2, 's': 'ab'}, {'ctx': {'k': [1], 'n': {'z': 0}}}]   # several keys (both orders); a nested value
LIMITS = [None, 1, 2, 5]
CONFIGS = [('mem', None), ('file', 'sorted'), ('file', 'reversed'), ('s3', ''), ('s3', 'p'), ('s3', 'pp'), ('s3-ro', 'p'), ('s3', 'run_metadata'), ('s3', 'fullish/x'), ('file', 'odd-dir')]


def bounds(tier):
    return {'recording_kinds': len(KINDS), 'saved_set_max': 3 if tier == 'quick' else 4, 'categories': CATS, 'filters': len(FILTERS),
            'limits': LIMITS, 'cassette_configs': len(CONFIGS)}


def gen_cases(tier, seed):
    mx = 3 if tier == 'quick' else 4
    for ci in range(len(CONFIGS)):
        for n in range(0, mx + 1):
            for combo in itertools.combinations_with_replacement(range(len(KINDS)), n):
                if n == 4 and len(set(combo)) < 3:
                    continue
                yield {'cfg': ci, 'set': list(combo)}
                if 1 <= n <= 2:
                    yield {'cfg': ci, 'set': list(combo), 'resave': True}


def run_case(case):
    kind, opt = CONFIGS[case['cfg']]
    real_listdir = os.listdir
    box = None
    try:
        if kind == 'file':
            box = cassettes.Box('file', subdir='rec[v1] {0}%s *?') if opt == 'odd-dir' else cassettes.Box('file')
            import playback.tape_cassettes.file_based.file_based_tape_cassette as FB
            order = (lambda d: sorted(real_listdir(d))) if opt in ('sorted', 'odd-dir') else (lambda d: sorted(real_listdir(d), reverse=True))

            class _Os(object):
                def __getattr__(self, n):
                    return getattr(os, n)
                listdir = staticmethod(order)
            FB.os = _Os()
            writer = reader = box.cassette
        elif kind == 'mem':
            box = cassettes.Box('mem')
            writer = reader = box.cassette
        else:
            box = cassettes.Box('s3', prefix=opt)
            writer = box.cassette
            from playback.tape_cassettes.s3.s3_tape_cassette import S3TapeCassette
            # foreign recordings of the other prefixes in the same bucket
            for other in ('', 'p', 'pp', 'q/p', 'run_metadata'):
                if other != opt:
                    oc = S3TapeCassette('bucket', key_prefix=other, read_only=False)
                    for cat in ('Op', 'OpX'):
                        r = oc.create_new_recording(cat)
                        r.add_metadata({'m': 1, 'foreign': other})
                        oc.save_recording(r)
            reader = S3TapeCassette('bucket', key_prefix=opt, read_only=True) if kind == 's3-ro' else writer
        return _judge(case, writer, reader)
    finally:
        if kind == 'file':
            import playback.tape_cassettes.file_based.file_based_tape_cassette as FB
            FB.os = os
        if box is not None:
            box.close()


def _judge(case, writer, reader):
    from playback.studio.recordings_lookup import find_matching_recording_ids, RecordingLookupProperties
    from playback.tape_recorder import TapeRecorder
    cfgname = '%s:%s' % CONFIGS[case['cfg']]
    saved = []   # (id, category, metadata)
    for ki in case['set']:
        cat, md = KINDS[ki]
        r = writer.create_new_recording(cat)
        r.set_data('k', ki)
        live = copy.deepcopy(md)
        r.add_metadata(live)
        writer.save_recording(r)
        saved.append((r.id, cat, copy.deepcopy(md)))
        # what the service does afterwards with the objects it had handed in must not reach what was saved
        for v in live.values():
            if isinstance(v, dict):
                v.setdefault('k', []).append('later')
                v['added-later'] = True
        live['m'] = 'changed-later'
    if case.get('resave'):   # the first recording is saved once more with other metadata: still ONE recording, latest metadata
        from playback.recordings.memory.memory_recording import MemoryRecording
        rid, cat, md = saved[0]
        r = MemoryRecording(rid)
        r.set_data('k', 'again')
        md2 = {'m': 2, 's': 'ab'} if md.get('m') != 2 else {'m': 1}
        r.add_metadata(dict(md2))
        writer.save_recording(r)
        saved[0] = (rid, cat, md2)
    # what a caller does with the recordings it FETCHED (without saving them) must not influence later listings
    for rid, cat, md in saved:
        try:
            got = reader.get_recording(rid)
            got.add_metadata({'m': 99, 's': 'tampered', 'absent_key': 1, INC: True})
        except Exception:
            pass
    viols = []
    nontrivial = 0
    n = 0

    def check(label, got_iter, cat, flt, limit):
        nonlocal nontrivial, n
        n += 1
        ref = [rid for rid, c, md in saved if c == cat and (not flt or ref_match(flt, md))]
        try:
            got = list(got_iter())
        except Exception as e:
            viols.append(viol('%s:raised:%s' % (cfgname.split(':')[0], type(e).__name__), '%s on %s raised (category %s filter %s limit %s)' % (label, cfgname, cat, flt, limit), sorted(ref), repr(e)))
            return
        if 0 < len(ref) < len(saved):
            nontrivial += 1
        kind = None
        if len(set(got)) != len(got):
            kind = 'duplicates'
        elif not set(got) <= set(ref):
            foreign = [g for g in got if g not in {s[0] for s in saved}]
            kind = 'foreign-id' if foreign else 'non-matching-id'
        elif limit is None and set(got) != set(ref):
            kind = 'missed'
        elif limit is not None and len(got) != min(limit, len(ref)):
            kind = 'limit-size'
        if kind:
            viols.append(viol('%s:%s:%s' % (cfgname.split(':')[0], label.split('(')[0], kind),
                              '%s on %s: category %s filter %s limit %s over saved %s' % (label, cfgname, cat, flt, limit, [(c, m) for _, c, m in saved]),
                              sorted(ref), got))
            return
        for rid in got:
            try:
                if reader.get_recording(rid).id != rid:
                    raise ValueError('other id')
            except Exception as e:
                viols.append(viol('%s:listed-id-not-fetchable' % cfgname.split(':')[0], 'listed id cannot be fetched', rid, repr(e)))
                return

    for cat in CATS:
        for flt in FILTERS:
            for limit in LIMITS:
                for rnd in (False, True):
                    check('iter_recording_ids(random=%s)' % rnd,
                          lambda: reader.iter_recording_ids(cat, metadata=dict(flt) if flt else flt, limit=limit, random_results=rnd), cat, flt, limit)
    tr = TapeRecorder(reader)
    shared = {True: RecordingLookupProperties(start_date=None, skip_incomplete=True), False: RecordingLookupProperties(start_date=None, skip_incomplete=False)}
    for cat in CATS:
        for skip in (True, False):
            for flt in (None, {'m': 1}, {'m': [1, 2]}):
                for limit in (None, 1):
                    if limit is None:   # ONE properties object re-used for successive lookups, its filter replaced in between
                        props = shared[skip]
                        props.metadata = dict(flt) if flt else None
                        props.limit = None
                    else:
                        props = RecordingLookupProperties(start_date=None, metadata=dict(flt) if flt else None, limit=limit, skip_incomplete=skip)
                    eff = dict(flt or {})
                    if skip:
                        eff[INC] = [False, None]
                    check('lookup(skip_incomplete=%s)' % skip, lambda: find_matching_recording_ids(tr, cat, props), cat, eff, limit)
    uniq = {}
    for v in viols:
        uniq.setdefault(v['sig'], v)
    return dict(viol=list(uniq.values()), obs=repr((case['cfg'], case['set'], len(viols))), states=[repr(sorted(case['set']))],
                nontrivial=nontrivial > 0, evals=n, transitions=n + len(saved))
