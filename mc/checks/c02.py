"""C02 - replay answers every interception from the recording or an explicit policy (missing-key option product)."""
from __future__ import annotations

import itertools

from mc import cassettes, progs as P
from mc.core import viol

ID = 'C02'
LEVEL = 'exploration'
RULE = ('recorded program P over {in ia, in ib, out oa} subsets x replayed probe program P\' (present / absent calls, up to the length '
        'bound) x the full product of missing-key options (6 fallback kinds x run-original x 8 substitutes incl. falsy and callable; '
        'fail-on-missing x 3 defaults) x recording enabled/disabled during replay x two consecutive replays x cassette; observations, '
        'executed bodies, cassette traffic and store bytes compared with the reference policy. Non-trivial = at least one absent call.')
ASSUMPTIONS = ['policy order taken from the README / docstrings: fallback aliases, run original, substitute (falsy ones included), else RecordingKeyError',
               'full option product on the in-memory cassette, a slice of it on file and S3(fake) cassettes']

FALLBACKS = {'none': None, 'list-hit': ['ib'], 'list-miss': ['zz'], 'call-hit': {'call': ['zz', 'ib']}, 'call-miss': {'call': ['zz']},
             'iter-hit': {'call_iter': ['zz', 'ib']}}
MISSING = {'unset': None, 'truthy': 'u5', 'zero': 'v0', 'empty-str': 've', 'empty-list': 'vel', 'empty-dict': 'ved', 'false': 'vfalse',
           'call': {'call': 'u6'}, 'call-zero': {'call': 'v0'}, 'call-none': {'call': 'vn'}}
P.VALS.setdefault('vfalse', lambda: False)
OUTCFG = [(True, None), (True, 'u5'), (False, None), (False, 'u5'), (False, 'v0')]
RECORDED = {
    'none': [], 'ia': [{'fn': 'in_a', 'a': ['x1'], 'ret': 'u1'}],
    'ia+ib': [{'fn': 'in_a', 'a': ['x1'], 'ret': 'u1'}, {'fn': 'in_b', 'a': ['x1'], 'ret': 'u2'}],
    'ib+oa': [{'fn': 'in_b', 'a': ['x1'], 'ret': 'u2'}, {'fn': 'out_a', 'a': ['x1'], 'ret': 'u3'}],
    'iaE+oaE': [{'fn': 'in_a', 'a': ['x1'], 'exc': 'E1'}, {'fn': 'out_a', 'a': ['x1'], 'exc': 'E2'}],
    'ib+oa2+oh2': [{'fn': 'in_b', 'a': ['x1'], 'ret': 'u2'}, {'fn': 'out_a', 'a': ['x1'], 'ret': 'u3'}, {'fn': 'out_a', 'a': ['x1'], 'ret': 'u4'},
                   {'fn': 'out_hdl', 'a': ['x1'], 'ret': 'u5'}, {'fn': 'out_hdl', 'a': ['x1'], 'ret': 'u6'}],
    'iz+ia+oh': [{'fn': 'in_z', 'a': ['x1'], 'ret': 'u5'}, {'fn': 'in_a', 'a': ['x1'], 'ret': 'u1'}, {'fn': 'out_hdl', 'a': ['x1'], 'ret': 'u4'}],
    'iaK+oaK': [{'fn': 'in_a', 'a': ['x1'], 'exc': 'KeyError'}, {'fn': 'out_a', 'a': ['x1'], 'exc': 'KeyError'}],
    'ib+oa2+ih': [{'fn': 'in_b', 'a': ['x1'], 'ret': 'u2'}, {'fn': 'out_a', 'a': ['x1'], 'ret': 'u3'}, {'fn': 'out_a', 'a': ['x1'], 'ret': 'u4'},
                  {'fn': 'in_hdl', 'a': ['x1'], 'ret': 'vlst'}],
}
# probe letters of the replayed program: q = the configured input on alias ia, Q = configured input on a never recorded alias,
# o = configured output on alias oa, O = configured output on a never recorded alias, a2 = ia with another argument (absent key)
PROBES = {
    'q': {'fn': 'in_q', 'a': ['x1']}, 'q2': {'fn': 'in_q', 'a': ['x2']}, 'Q': {'fn': 'in_Q', 'a': ['x1']},
    'o': {'fn': 'out_q', 'a': ['x1']}, 'O': {'fn': 'out_Q', 'a': ['xs']}, 'b': {'fn': 'in_b', 'a': ['x1']},
    # a run-original candidate whose body itself calls intercepted functions that ARE in the recording
    'Qn': {'fn': 'in_Q', 'a': ['x1'], 'pre': [{'fn': 'in_b', 'a': ['x1']}, {'fn': 'out_q', 'a': ['x1']}]},
    # absent input whose missing-key error the service does not catch (escapes play)
    'Qx': {'fn': 'in_Q', 'a': ['xs'], 'nocatch': True},
    'h': {'fn': 'in_hdl', 'a': ['x1']}, 'mut': {'do': 'mut'},
    # main alias iz is recorded AND its fallback ia (which sorts first) is recorded: the main entry answers
    'Z': {'fn': 'in_Z', 'a': ['x1']},
    # an output whose data handler fails while replaying: still answered from the recording, body not run
    'ohf': {'fn': 'out_hdl', 'a': ['x1'], 'fault': 'handler'},
    'oh': {'fn': 'out_hdl', 'a': ['x1']},
    'D': {'do': 'discard'},          # the replayed code reaches a discard (no-op while replaying)
    'F': {'do': 'force'},
    # run-original / callable substitute whose real answer is None
    'Qnone': {'fn': 'in_Q', 'a': ['x1'], 'orig_ret': 'vn'},
}
SHAPES_Q = [('q',), ('Q',), ('o',), ('O',), ('q', 'q2'), ('o', 'o'), ('Q', 'o'), ('q', 'O'), ('b', 'Q'), ('Qn', 'o'), ('h', 'mut', 'h'), ('Z', 'q'), ('ohf', 'o'), ('o', 'D', 'o'), ('o', 'F', 'D', 'o', 'q'), ('Qnone', 'o')]
SHAPES_T = SHAPES_Q + [('ohf', 'oh', 'oh'), ('oh', 'ohf', 'oh'), ('q', 'o', 'q2'), ('o', 'O', 'o'), ('Q', 'Q', 'q'), ('O', 'q', 'o'), ('q2', 'b', 'O')]


def bounds(tier):
    return {'recorded_programs': len(RECORDED), 'probe_shapes': len(SHAPES_Q if tier == 'quick' else SHAPES_T), 'fallback_kinds': len(FALLBACKS),
            'substitutes': len(MISSING), 'output_configs': len(OUTCFG), 'replays_per_case': 2, 'cassettes_full_product': ['mem'],
            'cassettes_slice': ['file', 's3']}


def mkfuncs(fb, ro, miss, fail, default):
    def inq(alias):
        d = {'t': 'in', 'style': 'inst', 'alias': alias}
        if FALLBACKS[fb] is not None:
            d['fallback'] = FALLBACKS[fb]
        if ro:
            d['run_orig'] = True
        if MISSING[miss] is not None:
            d['missing'] = MISSING[miss]
        return d

    def outq(alias):
        d = {'t': 'out', 'style': 'inst', 'alias': alias, 'fail': fail}
        if default is not None:
            d['default'] = default
        return d
    z = inq('iz')
    z['fallback'] = ['ia'] if not isinstance(z.get('fallback'), dict) else {'call': ['ia']}
    return {'in_q': inq('ia'), 'in_Q': inq('iq'), 'out_q': outq('oa'), 'out_Q': outq('oq'), 'in_Z': z, 'in_z': {'t': 'in', 'style': 'inst', 'alias': 'iz'}}


def gen_cases(tier, seed):
    shapes = SHAPES_Q if tier == 'quick' else SHAPES_T
    for rec in RECORDED:
        for shape in shapes:
            has_in = any(l in ('q', 'q2', 'Q', 'Qn', 'Z', 'Qnone') for l in shape)
            has_out = any(l in ('o', 'O') for l in shape)
            incfgs = list(itertools.product(FALLBACKS, (False, True), MISSING)) if has_in else [('none', False, 'unset')]
            outcfgs = OUTCFG if has_out else [(True, None)]
            for (fb, ro, miss), (fail, default) in itertools.product(incfgs, outcfgs):
                for enabled in (False, True):
                    yield {'rec': rec, 'shape': list(shape), 'cfg': [fb, ro, miss, fail, default], 'enabled': enabled, 'cas': 'mem'}
    # slice on the other cassettes: every option value once (not the product)
    for cas in ('file', 's3'):
        for rec in ('ia+ib', 'ib+oa'):
            for fb in FALLBACKS:
                yield {'rec': rec, 'shape': ['q', 'Q', 'o'], 'cfg': [fb, False, 'unset', True, None], 'enabled': True, 'cas': cas}
            for miss in MISSING:
                for ro in (False, True):
                    yield {'rec': rec, 'shape': ['Q', 'q2', 'O'], 'cfg': ['none', ro, miss, False, 'v0'], 'enabled': True, 'cas': cas}
    # histories: a replay whose missing-key error escapes play(), then the judged replays of the same recording
    for rec in ('ib+oa', 'ib+oa2+ih'):
        for first in (['o', 'Qx'], ['o', 'o', 'Qx'], ['Qx']):
            for shape in (['o', 'o'], ['o', 'b'], ['q', 'o']):
                for enabled in (False, True):
                    yield {'rec': rec, 'shape': shape, 'cfg': ['none', False, 'unset', True, None], 'enabled': enabled, 'cas': 'mem', 'first': first}
    # replay of an id that was never saved
    for cas in cassettes.KINDS:
        yield {'rec': 'ia', 'shape': ['q'], 'cfg': ['none', False, 'unset', True, None], 'enabled': False, 'cas': cas, 'unknown_id': True}


def run_case(case):
    box = cassettes.Box(case['cas'])
    try:
        return _run(case, box)
    finally:
        box.close()


def _run(case, box):
    viols = []
    prog1 = {'steps': RECORDED[case['rec']], 'funcs': {'in_z': {'t': 'in', 'style': 'inst', 'alias': 'iz'}}}
    R = P.ref(prog1)
    r = P.record(prog1, inner=box.cassette)
    if ('save', r.rec_id) not in r.log:
        return dict(viol=[viol('harness:not-saved', 'not saved', 'saved', r.log)], obs='unsaved')
    fb, ro, miss, fail, default = case['cfg']
    funcs = mkfuncs(fb, ro, miss, fail, default)
    prog2 = {'steps': [dict(PROBES[l]) for l in case['shape']], 'funcs': funcs}
    env2 = P.Env(inner=box.fresh(), funcs=funcs, enabled=case['enabled'])
    if case.get('unknown_id'):
        from playback.exceptions import NoSuchRecording
        bogus = r.rec_id[:-6] + 'ffffff'
        pl = P.replay(env2, bogus, prog2)
        ok = isinstance(pl.exc, NoSuchRecording) and not pl.journal and pl.obs is None
        if not ok:
            viols.append(viol('unknown-id:%s' % case['cas'], 'replay of an id that was never saved must signal NoSuchRecording and run nothing',
                              'NoSuchRecording, playback function not run', (repr(pl.exc), pl.obs, len(pl.journal))))
        return dict(viol=viols, obs=repr(type(pl.exc).__name__), nontrivial=True)
    E = P.ref_replay(R, prog2, funcs)
    snap0 = box.snapshot()
    seen = []
    if case.get('first'):
        prog0 = {'steps': [dict(PROBES[l]) for l in case['first']], 'funcs': funcs}
        E0 = P.ref_replay(R, prog0, funcs)
        p0 = P.replay(env2, r.rec_id, prog0)
        got0 = ('escape', type(p0.exc).__name__) if p0.exc is not None else ('ret',)
        if E0['outcome'] != got0:
            viols.append(viol('first-replay-outcome', 'a missing-key error the service does not catch must leave play()', E0['outcome'], got0))
    for rep in (1, 2):
        pl = P.replay(env2, r.rec_id, prog2)
        if pl.playback is None:
            viols.append(viol('replay:raised:%s' % type(pl.exc).__name__, 'play() raised', 'Playback', repr(pl.exc)))
            break
        got = P.obs_canon(pl.obs)
        seen.append(got)
        if got != E['obs']:
            # blame the first differing call
            i = next((i for i, (a, b) in enumerate(zip(got, E['obs'])) if a != b), min(len(got), len(E['obs'])))
            calls_only = [l for l in case['shape'] if l not in ('D', 'F', 'mut')]
            letter = calls_only[i] if i < len(calls_only) else '?'
            kind = 'in' if letter in ('q', 'q2', 'Q', 'b', 'Qn', 'Qx', 'h', 'Z', 'Qnone') else 'out'
            exp_i = E['obs'][i] if i < len(E['obs']) else None
            got_i = got[i] if i < len(got) else None
            sig = 'policy:%s:expected=%s:got=%s' % (kind, _cls(exp_i), _cls(got_i))
            viols.append(viol(sig, 'replay #%d call %d (%s) of shape %s with cfg fallback=%s run_orig=%s substitute=%s fail=%s default=%s over recording {%s}' % (
                rep, i, letter, case['shape'], fb, ro, miss, fail, default, case['rec']), exp_i, got_i))
        bodies = [e['fn'] for e in pl.journal if e['fn'] != '<extractor>']
        nested = [P.obs_canon(e.get('nested', [])) for e in pl.journal if e['fn'] != '<extractor>']
        if bodies == E['bodies'] and nested != E['nested']:
            viols.append(viol('run-original:nested-interception', 'interceptions made by a body running under run-original must still be answered from the recording',
                              E['nested'], nested))
        if bodies != E['bodies']:
            viols.append(viol('bodies:%s' % ('unexpected-execution' if len(bodies) > len(E['bodies']) else 'not-executed'),
                              'bodies executed during replay (only run-original may execute one)', E['bodies'], bodies))
        if [e[0] for e in pl.log] != ['get']:
            viols.append(viol('cassette-touched', 'replay reached the cassette with more than the fetch (recording_enabled=%s)' % case['enabled'], ['get'], pl.log))
        al = P.all_aliases(funcs)
        pm = P.outputs_map(pl.playback.playback_outputs, al)
        exp = dict(E['outputs'])
        exp[(P.OP_ALIAS, 1)] = E['op']
        if pm != exp:
            viols.append(viol('playback-outputs', 'playback outputs differ from reference', sorted(map(str, exp)), sorted(map(str, pm))))
    if box.snapshot() != snap0:
        viols.append(viol('store-changed', 'cassette store bytes changed during replay', 'identical', 'changed'))
    if len(seen) == 2 and seen[0] != seen[1]:
        viols.append(viol('second-replay-differs', 'second replay of the same recording observed something else', seen[0], seen[1]))
    absent = any(o == ('exc', 'RecordingKeyError') for o in E['obs']) or bool(E['bodies']) or miss != 'unset' or not fail
    uniq = {}
    for v in viols:
        uniq.setdefault(v['sig'], v)
    return dict(viol=list(uniq.values()), obs=repr(E['obs']) + repr(seen[:1]), nontrivial=absent, evals=2, transitions=2 * len(prog2['steps']) + 3)


def _cls(o):
    if o is None:
        return 'nothing'
    if o[0] == 'exc':
        return o[1]
    c = o[1]
    if isinstance(c, tuple) and c[:1] == ('obj',) and 'Orig' in c:
        return 'ran-original'
    if isinstance(c, tuple) and c[:1] == ('list',) and len(c) > 1 and c[1] == ('str', 'u'):
        return 'value-u%s' % c[2][1]
    return 'value:%s' % (c[0] if isinstance(c, tuple) else c)
