"""C14 - metadata filter matching is total and means what is documented.

Exhaustive over a closed universe of (filter value, recorded value) pairs, evaluated on the real
`TapeCassette.match_against_recorded_metadata`, directly and through listings of the in-memory and
the S3 cassette (fake bucket) that hold one odd and one normal recording.
"""
from __future__ import annotations

import fnmatch
import itertools

from mc.core import viol

ID = 'C14'
LEVEL = 'exploration'
DESIGN_REF = 'DESIGN.md §3 C14'
RULE = ('every filter value of the closed universe (atoms, operator objects, lists of alternatives up to the tier bound, '
        'one nested list) x every recorded value (absent + 15 JSON values), 1-key filters exhaustively and 2-key filters over a '
        'sub-universe; evaluated twice on the real matcher and compared with the reference matcher; a case is non-trivial when at '
        'least one recorded value matches and at least one does not')
ASSUMPTIONS = ['reference matcher written from the README/docstring: list=any, operator=Python comparison where defined else no match, '
               'missing/None matches only a None alternative, str filter=fnmatch against str values only, otherwise ==',
               'operator objects compare with Python semantics where the comparison is defined (None == None is a match for =), else no match']

ATOMS = [None, True, False, 0, 1, 2.5, '', 'a', 'a*', '?b', '[ab]', {}, {'x': 1}, '1', 'True', 'None']
OPS = [{'operator': op, 'value': v} for op in ['=', '<', '<=', '>', '>=', '~'] for v in [0, 1, 'a', 2.5, None, {'x': 1}, [1, 'a'], 'a*', '[ab]']]
BASE = ATOMS + OPS
ABSENT = '__absent__'
VALUES = [ABSENT, None, True, False, 0, 1, 2, 1.5, '', 'a', 'ab', 'A', 'b]', '1', 'None', [1], ['a'], {'x': 1}, {'py/type': 'm.C'}]


def bounds(tier):
    return {'list_alternatives_max': 2 if tier == 'quick' else 3, 'filter_atoms': len(ATOMS), 'operator_objects': len(OPS),
            'recorded_values': len(VALUES), 'filter_keys_max': 2}


def gen_cases(tier, seed):
    k = 2 if tier == 'quick' else 3
    for b in BASE:
        yield {'f': b}
    yield {'f': []}
    yield {'f': [['a', 1], None]}
    for n in range(1, k + 1):
        for combo in itertools.product(range(len(BASE)), repeat=n):
            yield {'f': [BASE[i] for i in combo]}
    # two-key filters: every pair over a sub-universe, against every pair of recorded values
    sub = [None, 1, 'a*', {'operator': '<', 'value': 1}, [0, None], {'x': 1}]
    for f1 in sub:
        for f2 in sub:
            yield {'f': f1, 'f2': f2}


def kind(x):
    if isinstance(x, dict) and 'operator' in x and 'value' in x:
        return 'op(%s,%s)' % (x['operator'] if x['operator'] in ('=', '<', '<=', '>', '>=') else 'unknown', type(x['value']).__name__)
    if isinstance(x, list):
        return 'list'
    if x == ABSENT and isinstance(x, str):
        return 'absent'
    return type(x).__name__


def ref_value(f, v):
    """v is None for absent/None."""
    if isinstance(f, list):
        return any(ref_value(x, v) for x in f)
    if isinstance(f, dict) and 'operator' in f and 'value' in f:
        op, fv = f['operator'], f['value']
        try:
            if op == '=':
                return v == fv
            if op == '<':
                return v < fv
            if op == '<=':
                return v <= fv
            if op == '>':
                return v > fv
            if op == '>=':
                return v >= fv
        except TypeError:
            return False
        return False
    if v is None:
        return f is None
    if isinstance(f, str):
        return isinstance(v, str) and fnmatch.fnmatchcase(v, f)
    return v == f


def ref_match(flt, md):
    return all(ref_value(f, md.get(k)) for k, f in flt.items())


def _leaf_pairs(f, v):
    """(filter leaf, value) pairs a violation can be blamed on: used for the signature."""
    if isinstance(f, list):
        out = []
        for x in f:
            out += _leaf_pairs(x, v)
        return out
    return [(f, v)]


def _eval(flt, md):
    from playback.tape_cassette import TapeCassette
    import copy
    f1, m1 = copy.deepcopy(flt), copy.deepcopy(md)
    try:
        r = TapeCassette.match_against_recorded_metadata(flt, md)
    except Exception as e:  # totality is part of the property
        return ('raise', type(e).__name__)
    if flt != f1 or md != m1:
        return ('mutated-arguments', None)
    return ('ok', r)


_LIST = {}


def _twin(f):
    """A filter value of another type whose text form is the same (5 vs '5', None vs 'None' ...), if there is one."""
    import ast
    if isinstance(f, str):
        try:
            v = ast.literal_eval(f)
            return v if not isinstance(v, str) else None
        except Exception:
            return None
    if isinstance(f, (bool, int, float)) or f is None:
        return str(f)
    return None


def _listing_probe(flt, md, kind='mem'):
    """One odd and one normal recording in a real cassette; the listing must still answer."""
    from playback.recordings.memory.memory_recording import MemoryRecording
    if kind == 'mem':
        from playback.tape_cassettes.in_memory.in_memory_tape_cassette import InMemoryTapeCassette
        c = InMemoryTapeCassette()
        ids = ('Op/odd', 'Op/normal')
    else:
        from mc import fakes3
        from playback.tape_cassettes.s3.s3_tape_cassette import S3TapeCassette
        fakes3.install()
        fakes3.new_store()
        c = S3TapeCassette('bucket', key_prefix='', read_only=False)
        ids = ('Op/20200101/odd', 'Op/20200101/normal')
    odd = MemoryRecording(ids[0])
    odd.add_metadata(md)
    norm = MemoryRecording(ids[1])
    norm.add_metadata({'k': 'a', 'k2': 1})
    c.save_recording(odd)
    c.save_recording(norm)
    try:
        tw = _twin(flt.get('k')) if len(flt) == 1 else None
        if tw is not None:   # the same cassette object first answers a lookup whose filter only LOOKS the same
            list(c.iter_recording_ids('Op', metadata={'k': tw}))
        return ('ok', sorted(x.split('/')[-1] for x in c.iter_recording_ids('Op', metadata=flt)))
    except Exception as e:
        return ('raise', type(e).__name__)


def run_case(case):
    f = case['f']
    viols = []
    obs = []
    hits = 0
    n = 0
    if 'f2' in case:
        combos = [({'k': f, 'k2': case['f2']}, a, b) for a in VALUES for b in VALUES]
    else:
        combos = [({'k': f}, a, ABSENT) for a in VALUES]
    for flt, a, b in combos:
        md = {}
        if not (isinstance(a, str) and a == ABSENT):
            md['k'] = a
        if not (isinstance(b, str) and b == ABSENT):
            md['k2'] = b
        exp = ref_match(flt, md)
        hits += bool(exp)
        n += 1
        r1 = _eval(flt, md)
        r2 = _eval(flt, md)
        obs.append(r1)
        if r1 != r2:
            viols.append(viol('nondeterministic', 'two evaluations of the same pair differ', r1, r2, pair=[flt, md]))
        if r1 != ('ok', exp):
            # blame: the first leaf pair whose own evaluation is wrong
            blamed = None
            for key in flt:
                for lf, lv in _leaf_pairs(flt[key], md.get(key, ABSENT)):
                    one = _eval({'k': lf}, {} if (isinstance(lv, str) and lv == ABSENT) else {'k': lv})
                    if one != ('ok', ref_match({'k': lf}, {} if (isinstance(lv, str) and lv == ABSENT) else {'k': lv})):
                        blamed = (lf, lv, one)
                        break
                if blamed:
                    break
            if blamed:
                sig = 'matcher:%s:filter=%s:recorded=%s' % (blamed[2][0] if blamed[2][0] != 'ok' else 'wrong-answer', kind(blamed[0]), kind(blamed[1]))
            else:
                sig = 'matcher:%s:composite' % (r1[0] if r1[0] != 'ok' else 'wrong-answer')
            viols.append(viol(sig, 'match_against_recorded_metadata(%r, %r)' % (flt, md), ('ok', exp), r1))
        # through a listing (single-key filters only; the two-key ones add nothing there)
        if 'f2' not in case and not (isinstance(a, dict) and 'py/type' in a):  # py/ dicts do not survive the serializer: direct matcher only
            expl = ('ok', sorted((['odd'] if exp else []) + (['normal'] if ref_match(flt, {'k': 'a', 'k2': 1}) else [])))
            for ck in ('mem', 's3'):
                lr = _listing_probe(flt, md, ck)
                if lr != expl:
                    viols.append(viol('listing-%s:%s:filter=%s:recorded=%s' % (ck, lr[0] if lr[0] != 'ok' else 'wrong-answer', kind(f), kind(a)),
                                      '%s cassette iter_recording_ids with filter %r over odd metadata %r' % (ck, flt, md), expl, lr))
    # one violation per signature per case is enough
    uniq = {}
    for v in viols:
        uniq.setdefault(v['sig'], v)
    return dict(viol=list(uniq.values()), obs=repr(obs), nontrivial=0 < hits < n, evals=n, transitions=n)
