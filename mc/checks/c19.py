"""C19 - the studio plays each recording once under its own category's tuning."""
from __future__ import annotations

import datetime
import itertools

from mc import cassettes, progs as P
from mc.core import viol

ID = 'C19'
LEVEL = 'model_checking'
RULE = ('every assignment of up to 3 (thorough 4) recordings to the categories Op / OpX / Op_X (recorded through real operation classes with '
        'those names) x { explicit id list in EVERY permutation, lookup-driven selection with limit None/1/2 } x { tuner failing for every '
        'subset of categories, with a message and argument-less } x { EVERY interleaving of next() over the per-category result generators, '
        'early abandonment of one generator } x cassette {memory, file, S3(fake)}; journal of playback-function / extractor / comparator '
        'invocations tagged with the category whose tuning created them. states = distinct (selection, consumption prefix) journals. '
        'Non-trivial = at least two categories selected.')
ASSUMPTIONS = ['in-process execution (dedicated-process routing is C08)', 'lookup start date = now - 1 day on a fixed harness clock (time windows are C16)']
CATS = ['Op', 'OpX', 'Op_X']
NOW = datetime.datetime(2020, 3, 1, 12, 0)
PROG = {'steps': [{'fn': 'in_a', 'a': ['x1'], 'ret': 'vlst'}, {'fn': 'out_a', 'a': ['x2'], 'ret': 'v1'}]}


def bounds(tier):
    return {'recordings_max': 3 if tier == 'quick' else 4, 'categories': CATS, 'permutations': 'all', 'failing_tuner_subsets': 8, 'exception_kinds': 2,
            'interleavings': 'all (generators x items)', 'cassettes': cassettes.KINDS}


def interleavings(counts):
    """all orders of next() calls: sequences over generator indices with generator i appearing counts[i] times."""
    items = []
    for i, c in enumerate(counts):
        items += [i] * c
    return sorted(set(itertools.permutations(items)))


def gen_cases(tier, seed):
    mx = 3 if tier == 'quick' else 4
    for cas in cassettes.KINDS:
        for n in range(0, mx + 1):
            for assign in itertools.product(range(3), repeat=n):
                base = {'cas': cas, 'assign': list(assign)}
                if n:
                    for perm in itertools.permutations(range(n)):
                        yield dict(base, sel='ids', perm=list(perm), fail=[], exc='msg', cons='drain')
                    yield dict(base, sel='ids', perm=list(range(n)) + [0], fail=[], exc='msg', cons='drain')   # an id listed twice
                for fail in itertools.chain.from_iterable(itertools.combinations(range(3), k) for k in range(1, 4)):
                    for exc in ('msg', 'bare'):
                        if n:
                            yield dict(base, sel='ids', perm=list(range(n)), fail=list(fail), exc=exc, cons='drain')
                        yield dict(base, sel='lookup', limit=None, fail=list(fail), exc=exc, cons='drain')
                for limit in (None, 1, 2):
                    yield dict(base, sel='lookup', limit=limit, fail=[], exc='msg', cons='drain')
                if n >= 2:   # ONE studio object played twice; its explicit id list is changed IN PLACE between the two plays
                    for drop in range(n):
                        yield dict(base, sel='ids', perm=list(range(n)), fail=[], exc='msg', cons='drain', second_play_without=drop)
                for bad in range(n):   # the extractor of the category fails for ONE recording (results kept in the comparison: extraction also runs in the studio's process)
                    yield dict(base, sel='ids', perm=list(range(n)), fail=[], exc='msg', cons='drain', bad_extract=bad)
                    yield dict(base, sel='lookup', limit=None, fail=[], exc='msg', cons='drain', bad_extract=bad)
                if n >= 2:
                    counts = [list(assign).count(c) for c in range(3)]
                    present = [c for c in range(3) if counts[c]]
                    for order in interleavings([counts[c] for c in present]):
                        yield dict(base, sel='ids', perm=list(range(n)), fail=[], exc='msg', cons='interleave', order=[present[i] for i in order])
                    for c in present:
                        yield dict(base, sel='ids', perm=list(range(n)), fail=[], exc='msg', cons='abandon', who=c)


def run_case(case):
    import pytz
    from mc import fakes3
    if case['cas'] == 's3':   # the S3 cassette and the bucket follow one fixed harness clock (no dependence on the real date / time zone)
        fakes3.install_s3_clock(lambda: NOW)
    box = cassettes.Box(case['cas'], clock=lambda: pytz.utc.localize(NOW)) if case['cas'] == 's3' else cassettes.Box(case['cas'])
    try:
        return _run(case, box)
    finally:
        box.close()


def _run(case, box):
    from playback.studio.studio import PlaybackStudio
    from playback.studio.equalizer_tuning import EqualizerTuning, EqualizerTuner
    from playback.studio.equalizer import EqualityStatus, ComparatorResult, CompareExecutionConfig
    from playback.studio.recordings_lookup import RecordingLookupProperties
    P.RT.reset()
    env = P.Env(inner=box.cassette, name='Op')
    env.add_class('OpX')
    env.add_class('Op_X')
    ids = []
    for ci in case['assign']:
        r = P.record(dict(PROG, cls=CATS[ci]), env=env)
        ids.append(r.rec_id)
    by_cat = {c: [rid for rid, ci in zip(ids, case['assign']) if CATS[ci] == c] for c in CATS}
    journal = []
    current = {}
    bad_id = ids[case['bad_extract']] if case.get('bad_extract') is not None else None
    cfg = CompareExecutionConfig(keep_results_in_comparison=True) if bad_id is not None else None
    fail = {CATS[i] for i in case['fail']}
    raised = {}

    class Tuner(EqualizerTuner):
        def create_category_tuning(self, category):
            journal.append(('tune', category))
            if category in fail:
                e = KeyError() if case['exc'] == 'bare' else ValueError('cannot tune ' + category)
                raised[category] = e
                raise e

            def pf(recording):
                journal.append(('play', category, recording.id))
                current['id'] = recording.id
                current['n'] = 0
                env.bind()
                P.RT.mode = 'replay'
                try:
                    return env.invoke(dict(PROG, cls=category))
                finally:
                    P.RT.mode = 'record'

            def extractor(outputs):
                journal.append(('extract', category))
                if bad_id is not None and current.get('id') == bad_id:
                    current['n'] = current.get('n', 0) + 1
                    if current['n'] > 2:   # fine while comparing, fails when the results are extracted again to be kept
                        raise KeyError('cannot extract ' + bad_id)
                return [o.value for o in outputs if P.OP_ALIAS in o.key]

            def comparator(a, b):
                journal.append(('compare', category))
                return ComparatorResult(EqualityStatus.Equal if P.canon(a) == P.canon(b) else EqualityStatus.Different, category)
            return EqualizerTuning(pf, extractor, comparator)
    env2 = P.Env(inner=box.fresh(), enabled=False)
    env2.classes = env.classes   # play through a recorder on a fresh cassette view; operation classes are bound to env's recorder
    # the studio must use the recorder the operation classes are decorated with
    env.tr.disable_recording()
    env.tr.tape_cassette = box.fresh()
    if case['sel'] == 'ids':
        sel = [ids[i] for i in case['perm']]
        studio = PlaybackStudio(CATS, Tuner(), env.tr, recording_ids=sel, compare_execution_config=cfg)
        exp_cats = sorted({CATS[case['assign'][i]] for i in case['perm']})
        exp_ids = {c: [rid for rid in sel if rid in by_cat[c]] for c in exp_cats}
    else:
        props = RecordingLookupProperties(start_date=NOW - datetime.timedelta(days=1), limit=case['limit'])
        order = ['OpX', 'Op', 'Op_X']
        studio = PlaybackStudio(order, Tuner(), env.tr, lookup_properties=props, compare_execution_config=cfg)
        exp_cats = order
        exp_ids = {c: by_cat[c] for c in order}
    viols = []
    if case.get('second_play_without') is not None:
        try:
            first = studio.play()
            for v in first.values():
                if not isinstance(v, Exception):
                    list(v)
        except Exception as e:
            return dict(viol=[viol('play-raised:%s' % type(e).__name__, 'first play() raised', 'results', repr(e))], obs='raised')
        journal[:] = []
        dropped = sel[case['second_play_without']]
        sel.remove(dropped)          # same list object, edited in place
        exp_cats = sorted({c for c in CATS if any(r in by_cat[c] for r in sel)})
        exp_ids = {c: [rid for rid in sel if rid in by_cat[c]] for c in exp_cats}
    try:
        result = studio.play()
    except Exception as e:
        return dict(viol=[viol('play-raised:%s' % type(e).__name__, 'PlaybackStudio.play() raised (failing tuner categories %s, %s exception)' % (sorted(fail), case['exc']),
                               'dict of per-category results', repr(e))], obs='raised')
    if list(result) != exp_cats:
        viols.append(viol('categories:%s' % ('order' if sorted(result) == sorted(exp_cats) else 'set'), 'categories reported by play()', exp_cats, list(result)))
    got_ids = {}
    gens = {}
    for c, v in result.items():
        if c in fail:
            if v is not raised.get(c):
                viols.append(viol('failing-tuner:not-reported', 'a category whose tuning cannot be created yields that error', repr(raised.get(c)), repr(v)))
        elif isinstance(v, Exception):
            viols.append(viol('healthy-category-failed', 'category %s is healthy but reports %r' % (c, v), 'comparisons', repr(v)))
        else:
            gens[c] = v
            got_ids[c] = []
    states = []

    def step(c):
        try:
            comp = next(gens[c])
        except StopIteration:
            return False
        except Exception as e:
            viols.append(viol('category-run-aborted:%s' % type(e).__name__, 'the comparison run of category %s was aborted by an exception; its remaining recordings are never replayed' % c,
                              'one verdict per recording', repr(e)))
            return False
        got_ids[c].append((comp.recording_id, comp.comparator_status.equality_status.name, comp.comparator_status.message))
        states.append(repr(sorted((k, len(v)) for k, v in got_ids.items())))
        return True
    if case['cons'] == 'drain':
        for c in list(gens):
            while step(c):
                pass
    elif case['cons'] == 'interleave':
        for ci in case['order']:
            if CATS[ci] in gens:
                step(CATS[ci])
        for c in list(gens):
            while step(c):
                pass
    else:
        who = CATS[case['who']]
        if who in gens:
            step(who)
            gens[who].close()
        for c in list(gens):
            if c != who:
                while step(c):
                    pass
    # exactly once, own tuning
    plays = [j for j in journal if j[0] == 'play']
    for c in gens:
        exp = exp_ids.get(c, [])
        if case['sel'] == 'lookup' and case.get('limit'):
            ok = len(got_ids[c]) == min(case['limit'], len(exp)) and {g[0] for g in got_ids[c]} <= set(exp) and len({g[0] for g in got_ids[c]}) == len(got_ids[c])
        elif case['sel'] == 'lookup':
            ok = sorted(g[0] for g in got_ids[c]) == sorted(exp)
        elif case['cons'] == 'abandon' and c == CATS[case['who']]:
            ok = [g[0] for g in got_ids[c]] == exp[:1]
        else:
            ok = [g[0] for g in got_ids[c]] == exp
        if not ok:
            foreign = [g[0] for g in got_ids[c] if g[0] not in by_cat[c]]
            viols.append(viol('category-results:%s' % ('foreign-recordings' if foreign else 'missing-or-repeated'), 'comparisons of category %s (selection %s)' % (c, case['sel']), exp, [g[0] for g in got_ids[c]]))
        for rid, status, msg in got_ids[c]:
            if rid == bad_id:
                if status != 'EqualizerFailure':
                    viols.append(viol('verdict:bad-extraction-not-a-failure', 'a recording whose extraction fails gets a framework-failure verdict', 'EqualizerFailure', status))
                continue
            if status != 'Equal' or msg != c:
                viols.append(viol('verdict:%s' % status, 'recording %s of category %s compared under tuning %r with verdict %s' % (rid, c, msg, status), ('Equal', c), (status, msg)))
                break
    for _, c, rid in plays:
        if rid not in by_cat[c]:
            viols.append(viol('played-under-foreign-tuning', 'recording %s was played with the playback function of category %s' % (rid, c), 'own category', c))
            break
    cnt = {}
    for _, c, rid in plays:
        cnt[rid] = cnt.get(rid, 0) + 1
    dup = {r: k for r, k in cnt.items() if k > (2 if case['sel'] == 'ids' and case['perm'].count(0) > 1 and r == ids[0] else 1)}
    if dup:
        viols.append(viol('played-more-than-once', 'a selected recording was replayed more than once', 1, dup))
    uniq = {}
    for v in viols:
        uniq.setdefault(v['sig'], v)
    return dict(viol=list(uniq.values()), obs=repr((case['sel'], sorted((c, len(v)) for c, v in got_ids.items()), sorted(fail))), states=states,
                nontrivial=len(set(case['assign'])) >= 2, transitions=len(plays) + len(journal), evals=1)
