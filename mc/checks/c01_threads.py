"""Threaded part of C01: operations that call interceptions from worker threads, recorded and replayed under explored schedules."""
from __future__ import annotations

import copy

from mc import progs as P, sched as S, threads as T
from mc.core import HarnessError, viol

A1 = {'fn': 'in_a', 'a': ['x1'], 'ret': 'vlst'}
A2 = {'fn': 'in_a', 'a': ['x2'], 'ret': 'vtup'}
B2 = {'fn': 'in_b', 'a': ['x2'], 'ret': 'vdct'}
OA = {'fn': 'out_a', 'a': ['x1'], 'ret': 'vs'}
OA2 = {'fn': 'out_a', 'a': ['x2'], 'ret': 'v0'}
OB = {'fn': 'out_b', 'a': ['x1'], 'ret': 'v1'}
OS = {'fn': 'out_static', 'a': ['xs'], 'ret': 'vn'}
SHAPES = {
    'P1': [[A1, OA], [B2, OB]],
    'P2': [[A1], [dict(A1)]],
    'P3': [[A1, A2], [OB, dict(OB, a=['x2'])]],
    'P4': [[OA, OA2], [OB]],
    'P5': [[A1], [B2], [OS]],
    'P6': [[{'fn': 'in_hdl', 'a': ['x1'], 'ret': 'vset'}, OA], [{'fn': 'in_static', 'a': ['x1'], 'ret': 'vb'}]],
    'P7': [[dict(A1, exc='E1'), OA], [dict(B2, pre=[dict(A1)]), OB]],
}


def gen_cases(tier, seed):
    # quick: every shape, line granularity, <= 1 preemption. thorough: opcode granularity at <= 1 preemption and line granularity at
    # <= 2 preemptions (the three-thread shape P5 stays at 1: its bound-2 space at opcode granularity exceeded the execution cap).
    for n in SHAPES:
        if tier == 'quick':
            for sh in range(2):
                yield {'engine': 'sched', 'shape': n, 'bound': 1, 'fine': False, 'shard': [sh, 2]}
            if n in ('P1', 'P2', 'P5'):
                yield {'engine': 'sched', 'shape': n, 'bound': 1, 'fine': False, 'shard': [0, 1], 'nolead': True}
        else:
            for sh in range(4):
                yield {'engine': 'sched', 'shape': n, 'bound': 1, 'fine': True, 'shard': [sh, 4]}
                yield {'engine': 'sched', 'shape': n, 'bound': 1, 'fine': True, 'shard': [sh, 4], 'nolead': True}
            if n != 'P5':
                for sh in range(24):
                    yield {'engine': 'sched', 'shape': n, 'bound': 2, 'fine': False, 'shard': [sh, 24]}
            if n in ('P2', 'P4'):
                for sh in range(96):   # three preemptions on the two smallest shapes
                    yield {'engine': 'sched', 'shape': n, 'bound': 3, 'fine': False, 'shard': [sh, 96]}


def prog_of(case):
    lead = [] if case.get('nolead') else [{'fn': 'out_static', 'a': ['x1'], 'ret': 'v1'}]   # nolead: the first interception of the run is made by the workers
    return {'steps': lead + [{'do': 'par', 'threads': SHAPES[case['shape']]}, {'fn': 'in_prop', 'ret': 'vq'}]}


def compare(prog, r, pl, label):
    viols = []
    if pl is None or pl.playback is None:
        return [viol('threads:replay-raised', '%s: play() raised' % label, 'Playback', repr(getattr(pl, 'exc', None)))]
    if P.obs_canon(pl.obs) != P.obs_canon(r.obs):
        viols.append(viol('threads:obs-differ', '%s: interceptions on worker threads observed other values than recorded' % label, P.obs_canon(r.obs), P.obs_canon(pl.obs)))
    bodies = [e['fn'] for e in pl.journal if e['fn'] != '<extractor>']
    if bodies:
        viols.append(viol('threads:body-executed', '%s: bodies executed during replay' % label, [], bodies))
    al = P.all_aliases()
    rm, pm = P.outputs_map(pl.playback.recorded_outputs, al), P.outputs_map(pl.playback.playback_outputs, al)
    if rm != pm:
        d = sorted(str(k) for k in set(rm) | set(pm) if rm.get(k) != pm.get(k))
        viols.append(viol('threads:outputs-differ', '%s: playback outputs differ from recorded outputs at %s' % (label, d[:4]), {k: str(rm.get(eval(k)))[:120] for k in d[:3]},
                          {k: str(pm.get(eval(k)))[:120] for k in d[:3]}))
    return viols


def run_case(case):
    prog = prog_of(case)
    viols = []
    outcomes = set()
    stats = {'replay_schedules': 0}

    def add(vs, choices, where):
        for v in vs:
            if not any(x['sig'] == v['sig'] for x in viols):
                v['schedule'] = {'where': where, 'choices': choices}
                viols.append(v)

    def rec_one(prefix):
        s, res = T.record_under(prog, prefix, fine=case['fine'])
        verdict = {'viol': [], 'obs': None}
        if not res['ok'] or res['r'] is None or res['r'].rec_id is None or ('save', res['r'].rec_id) not in res['r'].log:
            verdict['viol'] = [viol('threads:record-failed', 'threaded recording did not complete / was not saved', 'saved', (res['deadlock'], res['horizon'], res['thread_errors']))]
            return s, verdict
        r = res['r']
        stored = copy.deepcopy(res['env'].inner)   # the whole in-memory cassette as it is after the recording (no private attribute assumed)
        if not P.faithful(res['env'].spy.saved_objs[r.rec_id]):
            verdict['obs'] = 'outside-faithful-domain'
            return s, verdict
        s2, rp = T.replay_under(stored, r.rec_id, prog, [], fine=False)
        verdict['viol'] = compare(prog, r, rp['p'], 'recorded under schedule %s, replayed under the default schedule' % (list(s.choices)[:12],))
        verdict['obs'] = repr(P.obs_canon(r.obs))
        verdict['stored'] = (stored, r.rec_id, r)
        return s, verdict
    ex = S.explore(rec_one, case['bound'], max_execs=40000, shard=tuple(case['shard']))
    for choices, verdict in ex['results']:
        outcomes.add(verdict['obs'])
        add(verdict['viol'], choices, 'record')
    # the default recording replayed under every schedule of the bound (shard 0 only does this)
    if case['shard'][0] == 0:
        s0, v0 = rec_one([])
        if 'stored' in v0:
            stored, rid, r = v0['stored']

            def rep_one(prefix):
                s, rp = T.replay_under(stored, rid, prog, prefix, fine=case['fine'])
                return s, compare(prog, r, rp['p'], 'recorded under the default schedule, replayed under schedule')
            ex2 = S.explore(rep_one, case['bound'], max_execs=40000)
            stats['replay_schedules'] = ex2['executions']
            for choices, vs in ex2['results']:
                add(vs, choices, 'replay')
    return dict(viol=viols, obs=repr(sorted(map(str, outcomes)))[:1500], states=[o for o in outcomes if o], nontrivial=ex['executions'] > 1, ntkey=repr(case),
                evals=2 * ex['executions'] + stats['replay_schedules'], transitions=(2 * ex['executions'] + stats['replay_schedules']) * max(1, ex['max_points']),
                caps=['execution cap hit for %s' % case] if ex['capped'] else [],
                extra={'threaded_record_schedules': ex['executions'], 'threaded_replay_schedules': stats['replay_schedules']})
