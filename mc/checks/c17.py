"""C17 - the sampling policy alone decides which recordings are kept."""
from __future__ import annotations

import itertools
import os
import threading
from random import Random

from mc import progs as P
from mc.core import viol

ID = 'C17'
LEVEL = 'model_checking'
RULE = ('(a) exhaustive decision table skipped x rate{0,.3,1,1.5} x force{none,operation,body} x ignore-forcing x discard{none,before,after '
        'force} x outcome{return,raise,interrupt} x scripted draw{0,rate-e,rate,rate+e,.999} (+ the rows with a force or a discard repeated with recording switched off mid-run before them); (b) explicit-state search over histories of '
        'runs from three classes with different parameters on ONE recorder (state = canonical recorder fields after each run; closure '
        'reported); (c) seeded histories: same seed twice + a paired history differing only in content and outcome, against '
        'Random(seed); (d) S3 storage-level sampling calculator: ratio x scripted draws, seeded sequence, two cassettes in one process. '
        'Non-trivial = a row/history in which a draw, a force or a discard decides.')
ASSUMPTIONS = ['kept iff draw <= rate (the comparison the recorder logs)', "uniformity of CPython's Mersenne Twister is trusted, not explored",
               'scripted draws are injected through the recorder\'s Random instance (private attribute; listed under seams_missing if it disappears)']
EPS = 1e-9
RATES = [0.0, 0.3, 1.0, 1.5]


def bounds(tier):
    return {'table_rows': 2 * 4 * 3 * 2 * 3 * 3 * 5, 'history_depth': 2 if tier == 'quick' else 3, 'history_letters': len(HLETTERS),
            'seeded_history_len': 400 if tier == 'quick' else 2000}


def row_prog(skipped, rate, force, ignore, discard, outcome, off=False):
    steps = []
    body_pre = []
    acts = []
    if discard == 'before':
        acts.append('discard')
    if force == 'op':
        acts.append('force')
    if discard == 'after':
        acts.append('discard')
    steps += [{'do': a} for a in acts]
    call = {'fn': 'in_a', 'a': ['x1'], 'ret': 'v1'}
    if force == 'body':
        call['pre'] = ([{'do': 'discard'}] if discard == 'before' else []) + [{'do': 'force'}] + ([{'do': 'discard'}] if discard == 'after' else [])
        steps = [s for s in steps if s['do'] not in ('discard',)]
    steps.append(call)
    if off:   # the service switches recording off while the operation runs, before any of the decisions is announced
        steps.insert(0, {'do': 'disable'})
    end = {'ret': 'ret', 'raise': 'raise:E1', 'intr': 'intr'}[outcome]
    return {'steps': steps, 'end': end, 'params': {'rate': rate, 'ignore': ignore, 'skipped': skipped}}


CLASSES = {'K5': {'rate': 0.5}, 'K0i': {'rate': 0.0, 'ignore': True}, 'K0': {'rate': 0.0}, 'Ks': {'skipped': True}, 'K1': {'rate': 1.0}}
RUNS = {
    'plain': {'steps': [{'fn': 'out_a', 'a': ['x1']}]},
    'force': {'steps': [{'do': 'force'}, {'fn': 'out_a', 'a': ['x1']}]},
    'force-body': {'steps': [{'fn': 'in_a', 'a': ['x1'], 'pre': [{'do': 'force'}]}]},
    'force-discard': {'steps': [{'do': 'force'}, {'fn': 'out_a', 'a': ['x1']}, {'do': 'discard'}]},
    'force-keyfault': {'steps': [{'do': 'force'}, {'fn': 'in_a', 'a': ['x1'], 'fault': 'key'}]},
    'discard': {'steps': [{'do': 'discard'}]},
    'raise': {'steps': [{'fn': 'out_a', 'a': ['x1']}], 'end': 'raise:E1'},
    'force-intr': {'steps': [{'do': 'force'}], 'end': 'intr'},
}
HLETTERS = [(c, r, d) for c in CLASSES for r in RUNS for d in (0.4, 0.6) if not (c in ('Ks', 'K1', 'K0', 'K0i') and d == 0.6)]


def gen_cases(tier, seed):
    for skipped, rate, force, ignore, discard, outcome in itertools.product((False, True), RATES, ('none', 'op', 'body'), (False, True),
                                                                            ('none', 'before', 'after'), ('ret', 'raise', 'intr')):
        for d in (0.0, max(rate - EPS, 0.0), rate, rate + EPS, 0.999):
            yield {'k': 'row', 'row': [skipped, rate, force, ignore, discard, outcome], 'draw': d}
            if d in (0.0, 0.999) and (force != 'none' or discard != 'none'):
                yield {'k': 'row', 'row': [skipped, rate, force, ignore, discard, outcome], 'draw': d, 'off': True}
    depth = 2 if tier == 'quick' else 3
    for n in range(1, depth + 1):
        if n < 3:
            for h in itertools.product(range(len(HLETTERS)), repeat=n):
                yield {'k': 'hist', 'h': list(h)}
        else:  # depth 3: every pair followed by the probes that can expose a leak (plain runs of every class)
            probes = [i for i, l in enumerate(HLETTERS) if l[1] == 'plain']
            for h in itertools.product(range(len(HLETTERS)), repeat=2):
                for p in probes:
                    yield {'k': 'hist', 'h': list(h) + [p]}
    # one decorated operation defined on a base class and inherited by subclasses with their own parameters: every order of runs
    subs = ['S_skip', 'S_rate0', 'S_rate1', 'S_rate0_ignore']
    for n_runs in (1, 2, 3):
        for order in itertools.product(range(len(subs)), repeat=n_runs):
            for forced in (False, True):
                yield {'k': 'inherit', 'order': [subs[i] for i in order], 'forced': forced}
    n = 400 if tier == 'quick' else 2000
    for s in sorted({0, seed, 1, 110613}):
        for rate in (0.3, 0.5, 0.05):
            yield {'k': 'seeded', 'seed': s, 'rate': rate, 'n': n}
    for ratio in (0, 0.3, 1, 2):
        for d in (0.0, 0.3 - EPS, 0.3, 0.3 + EPS, 0.999):
            yield {'k': 's3', 'ratio': ratio, 'draw': d}
    yield {'k': 's3seeded', 'n': 200}


def run_case(case):
    return {'row': _row, 'hist': _hist, 'seeded': _seeded, 's3': _s3, 's3seeded': _s3seeded, 'inherit': _inherit}[case['k']](case)


def _decide(r, R):
    fin = [e[0] for e in r.log if e[0] in ('create', 'save', 'abort')]
    exp = {'none': [], 'aborted': ['create', 'abort'], 'saved': ['create', 'save'], 'save_failed': ['create', 'save']}[R['final']]
    return fin, exp


def _row(case):
    skipped, rate, force, ignore, discard, outcome = case['row']
    prog = row_prog(skipped, rate, force, ignore, discard, outcome, case.get('off', False))
    R = P.ref(prog, draw=case['draw'])
    r = P.record(prog, draws=[case['draw']])
    viols = []
    fin, exp = _decide(r, R)
    if fin != exp:
        viols.append(viol('table:%s->%s' % ('/'.join(exp) or 'nothing', '/'.join(fin) or 'nothing'),
                          'decision differs from the documented policy for row skipped=%s rate=%s force=%s ignore=%s discard=%s outcome=%s draw=%r' % (
                              skipped, rate, force, ignore, discard, outcome, case['draw']), exp, fin))
    draws = r.env.draws.n if r.env.draws is not None else None
    if draws is not None and draws != R['draws']:
        viols.append(viol('table:draws:%d-instead-of-%d' % (draws, R['draws']), 'number of random draws consumed by the decision', R['draws'], draws))
    decisive = R['started'] and (R['draws'] == 1 or R['forced'] or R['discarded'])
    return dict(viol=viols, obs=repr((fin, draws)), nontrivial=decisive, extra={'seams_missing': list(getattr(r.env, 'seams_missing', []))})


def _state(tr):
    d = {}
    for k, v in vars(tr).items():
        if k in ('tape_cassette', '_random', '_thread_locals', '_classes_recording_params') or isinstance(v, threading.local) or hasattr(v, 'getrandbits') \
                or hasattr(v, 'create_new_recording'):
            continue   # identity of collaborators; RNG abstracted to the draw counter; params registry is static configuration
        d[k] = P.canon(v) if not hasattr(v, 'id') else ('recording', getattr(v, 'id', None))
    return repr(sorted(d.items()))


def _hist(case):
    env = P.Env(name='K5', params=CLASSES['K5'], draws=[])
    for c in CLASSES:
        if c != 'K5':
            env.add_class(c, params=CLASSES[c])
    P.RT.reset()
    draws = [HLETTERS[i][2] for i in case['h']]
    viols = []
    states = []
    script = []
    for i in case['h']:   # a draw is only scripted for the runs that consume one (reference decides)
        c, rname, d = HLETTERS[i]
        prog = dict(RUNS[rname], cls=c, params=CLASSES[c])
        R = P.ref(prog, draw=d)
        script += [d] * R['draws']
    env.script_draws(script)
    for pos, i in enumerate(case['h']):
        c, rname, d = HLETTERS[i]
        prog = dict(RUNS[rname], cls=c, params=CLASSES[c])
        R = P.ref(prog, draw=d)
        r = P.record(prog, env=env)
        fin, exp = _decide(r, R)
        if fin != exp:
            prev = [HLETTERS[j][:2] for j in case['h'][:pos]]
            viols.append(viol('history:%s:%s->%s' % (rname if not prev else 'after-' + prev[-1][1], '/'.join(exp) or 'nothing', '/'.join(fin) or 'nothing'),
                              'run %d (%s on %s, draw %s) decided differently after history %s' % (pos, rname, c, d, prev), exp, fin))
        states.append(_state(env.tr))
    if env.draws is not None and env.draws.n != len(script):
        viols.append(viol('history:draws', 'draws consumed over the history', len(script), env.draws.n))
    return dict(viol=viols, obs=repr(states[-1]), states=states, nontrivial=len(case['h']) > 1, transitions=len(case['h']), evals=len(case['h']))


def _seeded(case):
    seed, rate, n = case['seed'], case['rate'], case['n']
    rnd = Random(seed)
    hist = Random(12345)
    plan = []
    exp = []
    for i in range(n):
        kind = hist.choice(['plain', 'plain', 'plain', 'raise', 'force', 'discard', 'plain'])
        plan.append(kind)
        if kind == 'force':
            exp.append('save')
        elif kind == 'discard':
            exp.append('abort')
        else:
            exp.append('save' if rnd.random() <= rate else 'abort')

    def run(variant):
        env = P.Env(name='K', params={'rate': rate}, seed=seed)
        P.RT.reset()
        out = []
        for i, kind in enumerate(plan):
            k2 = kind
            if variant == 'paired' and kind in ('plain', 'raise'):   # same decisions expected: only content and outcome differ
                k2 = 'raise' if kind == 'plain' else 'plain'
            prog = dict(RUNS[k2], cls='K')
            if variant == 'paired':
                prog = dict(prog, steps=prog['steps'] + [{'fn': 'in_b', 'a': ['xs'], 'ret': 'vlst'}])
            if variant == 'threads' and i % 2:   # every other operation runs (start to finish) on a fresh request thread
                import threading
                box = []
                t = threading.Thread(target=lambda: box.append(P.record(prog, env=env)))
                t.start()
                t.join()
                r = box[0]
            else:
                r = P.record(prog, env=env)
            out.append([e[0] for e in r.log if e[0] in ('save', 'abort')][-1:])
        return [o[0] if o else None for o in out]
    viols = []
    a, b, c, d = run('same'), run('same'), run('paired'), run('threads')
    if d != exp:
        i = next(i for i, (x, y) in enumerate(zip(d, exp)) if x != y)
        viols.append(viol('seeded:thread-dependent', 'decision %d changed when every other operation ran on its own thread (one seeded stream per recorder expected)' % i, exp[i], d[i]))
    if a != b:
        viols.append(viol('seeded:not-reproducible', 'two recorders with the same seed decided differently on the same history (seed %d)' % seed, a[:20], b[:20]))
    if a != exp:
        i = next(i for i, (x, y) in enumerate(zip(a, exp)) if x != y)
        viols.append(viol('seeded:differs-from-Random(seed)', 'decision %d of the seeded history differs from Random(%d).random() <= %s (run kind %s)' % (i, seed, rate, plan[i]), exp[i], a[i]))
    if c != exp:
        i = next(i for i, (x, y) in enumerate(zip(c, exp)) if x != y)
        viols.append(viol('seeded:content-dependent', 'decision %d changed when only content/outcome of the operations changed' % i, exp[i], c[i]))
    kept = sum(1 for x, k in zip(a, plan) if x == 'save' and k in ('plain', 'raise'))
    return dict(viol=viols, obs=repr((seed, rate, kept)), nontrivial=True, evals=4 * n, transitions=4 * n)


SUBPARAMS = {'S_skip': {'skipped': True}, 'S_rate0': {'rate': 0.0}, 'S_rate1': {'rate': 1.0}, 'S_rate0_ignore': {'rate': 0.0, 'ignore': True}}


def _inherit(case):
    env = P.Env(name='Base', params={'rate': 0.5}, draws=[])
    for n, prm in SUBPARAMS.items():
        env.add_subclass(n, 'Base', prm)
    P.RT.reset()
    viols = []
    seen = []
    for pos, cname in enumerate(case['order']):
        steps = ([{'do': 'force'}] if case['forced'] else []) + [{'fn': 'out_a', 'a': ['x1']}]
        prog = {'steps': steps, 'cls': cname, 'params': SUBPARAMS[cname]}
        R = P.ref(prog, draw=0.4)
        env.script_draws([0.4] * R['draws'])
        r = P.record(dict(prog), env=env)
        fin, exp = _decide(r, R)
        seen.append(fin)
        if fin != exp:
            viols.append(viol('inherited-operation:%s:%s->%s' % (cname, '/'.join(exp) or 'nothing', '/'.join(fin) or 'nothing'),
                              'run %d of %s (an operation inherited from a common base class) after %s; forced=%s' % (pos, cname, case['order'][:pos], case['forced']), exp, fin))
            break
    return dict(viol=viols, obs=repr((case['order'], seen)), nontrivial=len(set(case['order'])) > 1, evals=len(case['order']), transitions=len(case['order']))


def _mk_s3(calc):
    from mc import fakes3
    from playback.tape_cassettes.s3.s3_tape_cassette import S3TapeCassette
    fakes3.install()
    return S3TapeCassette('bucket', key_prefix='p', read_only=False, sampling_calculator=calc)


def _s3(case):
    from mc import fakes3
    from playback.recordings.memory.memory_recording import MemoryRecording
    st = fakes3.new_store()
    seen = []
    c = _mk_s3(lambda category, size, recording: seen.append((category, size > 0, recording.id)) or case['ratio'])

    class Scripted(object):
        n = 0

        def random(self):
            Scripted.n += 1
            return case['draw']
    missing = []
    import random as _random_mod
    rng_attrs = [k for k, v in vars(c).items() if isinstance(v, _random_mod.Random)]   # whatever the generator attribute is called
    for k in rng_attrs:
        setattr(c, k, Scripted())
    if not rng_attrs:
        missing = ['S3TapeCassette: no random.Random attribute to script']
    r = c.create_new_recording('Op')
    r.set_data('k', 1)
    r.add_metadata({'m': 1})
    c.save_recording(r)
    stored = any('/full/' in k for k in st.objs)
    exp = case['ratio'] >= 1 or case['draw'] <= case['ratio']
    viols = []
    if stored != exp and not (missing and 0 < case['ratio'] < 1):   # (an unscripted fractional decision is judged by the seeded-sequence case only)
        viols.append(viol('s3:calculator:%s' % ('dropped' if exp else 'kept'), 'storage-level sampling with ratio %s and draw %r' % (case['ratio'], case['draw']), exp, stored))
    if not missing and Scripted.n != (0 if case['ratio'] >= 1 else 1):
        viols.append(viol('s3:draws', 'draws consumed by the storage-level decision', 0 if case['ratio'] >= 1 else 1, Scripted.n))
    if seen != [('Op', True, r.id)]:
        viols.append(viol('s3:calculator-args', 'calculator must be asked once with (category, size, recording)', [('Op', True, r.id)], seen))
    return dict(viol=viols, obs=repr((stored, Scripted.n)), nontrivial=0 < case['ratio'] < 1, extra={'seams_missing': missing})


def _s3seeded(case):
    from mc import fakes3
    fakes3.new_store()
    viols = []
    seqs = []
    for inst in range(2):   # two cassettes in one process: each follows Random(110613) from its start
        st = fakes3.new_store()
        c = _mk_s3(lambda category, size, recording: 0.4)
        got = []
        for i in range(case['n']):
            r = c.create_new_recording('Op')
            r.set_data('k', i)
            c.save_recording(r)
            got.append(any(r.id in k for k in st.objs))
        seqs.append(got)
    rnd = Random(110613)
    exp = [rnd.random() <= 0.4 for _ in range(case['n'])]
    # a bucket that rejects one put now and then: the decision of a recording is taken once and costs one draw, whatever the upload does
    st = fakes3.new_store()
    c = _mk_s3(lambda category, size, recording: 0.4)
    state = {'fail': False}

    def hook(key):
        if state['fail'] and '/full/' in key:
            state['fail'] = False
            raise IOError('bucket rejects this put by design')
    st.put_hook = hook
    got = []
    for i in range(case['n']):
        r = c.create_new_recording('Op')
        r.set_data('k', i)
        state['fail'] = exp[i] and i % 3 == 0
        try:
            c.save_recording(r)
        except IOError:
            pass
        state['fail'] = False
        got.append(any(r.id in k for k in st.objs))
    bad = [i for i in range(case['n']) if not (exp[i] and i % 3 == 0) and got[i] != exp[i]]
    if bad:
        viols.append(viol('s3:seeded:shifted-by-failed-upload', 'after an upload that was rejected once, later storage-level decisions no longer follow the seeded sequence',
                          [exp[i] for i in bad[:10]], [got[i] for i in bad[:10]]))
    for inst, got in enumerate(seqs):
        if got != exp:
            viols.append(viol('s3:seeded:cassette-%d' % inst, 'storage-level sampling of cassette #%d in the process is not the documented seeded sequence' % inst, exp[:15], got[:15]))
    return dict(viol=viols, obs=repr(sum(seqs[0])), nontrivial=True, evals=2 * case['n'])


def finalize(ctx):
    ctx.notes['inter_run_states'] = len(ctx.states)
    ctx.notes['closed_at_depth'] = 1 if len(ctx.states) <= 2 else None
