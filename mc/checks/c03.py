"""C03 - captured outputs are exactly what the executing code sent (recorded program P, replayed edit P')."""
from __future__ import annotations

import copy
import itertools

from mc import progs as P
from mc.core import viol

ID = 'C03'
LEVEL = 'exploration'
RULE = ('every output-call program P up to the length bound over (function x argument shape) letters, both endings, plus the families '
        '"1..12 calls of one alias"; replayed as P itself and as every single behavioural edit of P (changed argument, dropped / inserted / '
        'swapped call, changed result, raise<->return), thorough: all pairs of edits on short programs; recorded and playback output maps are '
        'compared entry by entry with the reference maps. Non-trivial = the edit changes the reference map.')
ASSUMPTIONS = ['entries are identified by alias and trailing ordinal parsed from the public Output.key; list order is not part of the claim',
               'in-memory cassette (cassette independence is C07/C01)']

FNS = ['out_a', 'out_b', 'out_static', 'out_hdl']
SHAPES = {'p1': {'a': ['x1']}, 'p0': {}, 'mix': {'a': ['xs'], 'k': {'z': 'xd'}}, 'kw': {'k': {'z': 'x2'}}, 'p2': {'a': ['x1', 'xl']}}
RETS = ['u1', 'u2', 'u3', 'u4', 'u5', 'u6']


def bounds(tier):
    return {'max_len': 2 if tier == 'quick' else 3, 'letters': 12 if tier == 'quick' else 20, 'edit_depth': 1 if tier == 'quick' else 2,
            'family_calls_max': 12}


def letter(fn, shape):
    d = {'fn': fn}
    d.update(copy.deepcopy(SHAPES[shape]))
    return d


def mkprog(letters, end='ret'):
    steps = []
    for i, l in enumerate(letters):
        s = copy.deepcopy(l)
        s['ret'] = RETS[i % len(RETS)]
        steps.append(s)
    steps.append({'do': 'val', 'v': 'v1'})
    return {'steps': steps, 'end': end}


def edits_of(prog):
    calls = [i for i, s in enumerate(prog['steps']) if 'fn' in s]
    out = [None]
    for i in calls:
        out.append(['arg', i])
        out.append(['drop', i])
        if prog['steps'][i].get('k'):
            out.append(['kwval', i])
    for pos in range(len(calls) + 1):
        near = prog['steps'][calls[min(pos, len(calls) - 1)]]['fn'] if calls else 'out_a'
        for fn in sorted({near, 'out_b' if near != 'out_b' else 'out_a'}):
            out.append(['ins', pos, fn])
    for a, b in zip(calls, calls[1:]):
        out.append(['swap', a, b])
    out.append(['result'])
    out.append(['end', 'raise:E1' if prog['end'] == 'ret' else 'ret'])
    out.append(['end', 'raise:Unser'])
    return out


def apply_edit(prog, e):
    q = copy.deepcopy(prog)
    if e is None:
        return q
    k = e[0]
    st = q['steps']
    if k == 'arg':
        s = st[e[1]]
        s['a'] = ['x2'] + list(s.get('a', []))[1:] if s.get('a') else ['x2']
    elif k == 'kwval':
        s = st[e[1]]
        s['k'] = {kk: 'xn' for kk in s['k']}
    elif k == 'drop':
        del st[e[1]]
    elif k == 'ins':
        calls = [i for i, s in enumerate(st) if 'fn' in s]
        at = calls[e[1]] if e[1] < len(calls) else len([s for s in st if 'fn' in s])
        st.insert(at, {'fn': e[2], 'a': ['xs'], 'ret': 'v0'})
    elif k == 'swap':
        st[e[1]], st[e[2]] = st[e[2]], st[e[1]]
    elif k == 'result':
        for s in st:
            if s.get('do') == 'val':
                s['v'] = 'vlst'
    elif k == 'end':
        q['end'] = e[1]
    return q


def gen_cases(tier, seed):
    shapes = ['p1', 'p0', 'mix'] if tier == 'quick' else ['p1', 'p0', 'mix', 'kw', 'p2']
    letters = [(f, s) for f in FNS for s in shapes]
    maxlen = 2 if tier == 'quick' else 3
    for n in range(0, maxlen + 1):
        for combo in itertools.product(letters, repeat=n):
            for end in ('ret', 'raise:E1'):
                prog = mkprog([letter(*c) for c in combo], end)
                es = edits_of(prog)
                for e in es:
                    yield {'P': prog, 'E': [e] if e else []}
                if n <= 2:   # the same pair replayed on a recorder whose previous replays failed half way
                    yield {'P': prog, 'E': [], 'after_failed_replay': True}
                    yield {'P': prog, 'E': [es[1]] if len(es) > 1 and es[1] else [], 'after_failed_replay': True}
                if tier == 'thorough' and n <= 2:
                    structural = ('drop', 'ins', 'swap')
                    for e1, e2 in itertools.combinations([e for e in es if e], 2):
                        if e1[0] in structural and e2[0] in structural:
                            continue  # two structural edits would shift each other's positions; pairs combine at most one
                        # value edits are applied first (their indices refer to P), the structural one afterwards
                        yield {'P': prog, 'E': [e2, e1] if e1[0] in structural else [e1, e2]}
    # long tails: one alias called 1..12 times; edits at the far end (ordinals >= 10)
    for fn in ('out_a', 'out_static', 'out_hdl'):
        for n in range(1, 13):
            prog = mkprog([letter(fn, 'p1')] * n)
            yield {'P': prog, 'E': []}
            yield {'P': prog, 'E': [['arg', n - 1]]}
            yield {'P': prog, 'E': [['drop', 0]]}
            yield {'P': prog, 'E': [['ins', n, fn]]}
    # the same alias called from the operation's thread and from joined worker threads (ordinals are per recording, not per thread)
    for fn in ('out_a', 'out_static'):
        w = {'do': 'thr', 'steps': [dict(letter(fn, 'p1'), ret='u2'), dict(letter(fn, 'mix'), ret='u3')]}
        w2 = {'do': 'thr', 'steps': [dict(letter(fn, 'p0'), ret='u5')]}
        for steps in ([dict(letter(fn, 'p1'), ret='u1'), w, dict(letter(fn, 'p1'), ret='u4')], [w, w2], [w, dict(letter('out_b', 'p1'), ret='u1'), w2, dict(letter(fn, 'p1'), ret='u6')]):
            prog = {'steps': steps + [{'do': 'val', 'v': 'v1'}], 'end': 'ret'}
            yield {'P': prog, 'E': []}
            yield {'P': prog, 'E': [['end', 'raise:E1']]}
    # three interleaved aliases, 10+ calls in total
    mix = [letter(FNS[i % 3], 'p1') for i in range(11)]
    yield {'P': mkprog(mix), 'E': []}
    yield {'P': mkprog(mix), 'E': [['swap', 3, 4]]}
    yield {'P': mkprog(mix), 'E': [['swap', 3, 6]]}


def expected_map(outputs, op):
    m = dict(outputs)
    if op is not None:
        m[(P.OP_ALIAS, 1)] = op if op[0] != 'v' else ('v', tuple(op[1]))
    return m


def run_case(case):
    prog = case['P']
    prog2 = prog
    for e in case['E']:
        prog2 = apply_edit(prog2, e)
    viols = []
    R = P.ref(prog)
    r = P.record(prog)
    if R['final'] != 'saved' or ('save', r.rec_id) not in r.log:
        return dict(viol=[viol('harness:not-saved', 'recording of an output-only program was not saved', R['final'], r.log)], obs='unsaved')
    if case.get('after_failed_replay'):
        P.replay(r.env, r.rec_id, {'steps': [{'fn': 'out_a', 'a': ['xs']}, {'fn': 'out_b', 'a': ['xs']}, {'fn': 'in_b', 'a': ['xb'], 'nocatch': True}]})
        P.replay(r.env, r.rec_id, {'steps': [{'fn': 'out_static', 'a': ['x1']}], 'end': 'intr'})
    pl = P.replay(r.env, r.rec_id, prog2)
    E2 = P.ref_replay(R, prog2)
    if pl.playback is None:
        return dict(viol=[viol('replay:raised:%s' % type(pl.exc).__name__, 'play() raised', 'a Playback', repr(pl.exc))], obs='raised')
    aliases = P.all_aliases()
    rec_map = P.outputs_map(pl.playback.recorded_outputs, aliases)
    play_map = P.outputs_map(pl.playback.playback_outputs, aliases)
    exp_rec = expected_map(R['outputs'], R['op'])
    exp_play = expected_map(E2['outputs'], E2['op'])
    for name, got, exp in (('recorded', rec_map, exp_rec), ('playback', play_map, exp_play)):
        if got != exp:
            missing = sorted(map(str, set(exp) - set(got)))
            extra = sorted(map(str, set(got) - set(exp)))
            wrong = sorted(str(k) for k in set(exp) & set(got) if exp[k] != got[k])
            kinds = '+'.join(x for x, y in (('missing', missing), ('extra', extra), ('wrong', wrong)) if y)
            viols.append(viol('%s-outputs:%s' % (name, kinds), '%s outputs differ from what the program sent (P=%d calls, edits=%s)' % (
                name, len([s for s in prog['steps'] if 'fn' in s]), case['E']),
                {'missing': missing, 'extra': extra, 'wrong': {k: str(exp[eval(k)])[:200] for k in wrong[:3]}},
                {'wrong': {k: str(got[eval(k)])[:200] for k in wrong[:3]}}))
    # the comparison is made on the Playback object, which callers keep: a later replay on the same recorder must not reach into it
    P.replay(r.env, r.rec_id, {'steps': [{'fn': 'out_b', 'a': ['xt'], 'ret': 'v1'}, {'fn': 'out_static', 'a': ['x1']}]})
    if P.outputs_map(pl.playback.playback_outputs, aliases) != play_map or P.outputs_map(pl.playback.recorded_outputs, aliases) != rec_map:
        viols.append(viol('kept-playback:changed-by-later-replay', 'the outputs held by a Playback object changed when the same recorder replayed something else afterwards',
                          sorted(map(str, play_map)), sorted(map(str, P.outputs_map(pl.playback.playback_outputs, aliases)))))
    nontrivial = exp_rec != exp_play
    return dict(viol=viols, obs=repr((sorted(map(str, play_map.items())))), nontrivial=nontrivial,
                ntkey=P.canon([prog, case['E']]).__hash__(), transitions=len(prog['steps']) + len(prog2['steps']) + 2)
