"""C05 - a recording is persisted whole or not at all, and finalised exactly once (fault enumeration)."""
from __future__ import annotations

from mc import faultspace as F, progs as P
from mc.core import viol

ID = 'C05'
LEVEL = 'fault_enumeration'
RULE = ('every base program up to the length bound over 6 letters x every single placement and every compatible pair of placements of: '
        'key-building failure, data-handler failure, unserialisable value / failing copy, ordinary exception or interrupt inside an '
        'intercepted body, discard / force inside a body, discard / force / ordinary exception / interrupt at every step boundary; x 4 '
        'endings x 18 global variants (extractor kinds, failing save, sampling outcomes, copy-on, class-level, skipped, disabled); followed by '
        'a fault-free operation on the same recorder; every stored complete recording is replayed. Non-trivial = at least one fault placed.')
ASSUMPTIONS = ['reference finalisation semantics of DESIGN appendix A', 'in-memory cassette behind a spy that journals create/save/abort',
               'programs that catch a BaseException raised inside an intercepted body are outside the quantifier']


def bounds(tier):
    return {'base_len_max': 2 if tier == 'quick' else 3, 'letters': 6, 'fault_kinds': len(F.STEP_FAULTS + F.STEP_BODY + F.STEP_PRE + F.GAP),
            'placements': 'single and pairs', 'endings': len(F.ENDS), 'global_variants': len(F.GLOBS)}


def gen_cases(tier, seed):
    return (c for c in F.gen(tier) if not F.GLOBS[c['glob']].get('prior'))   # (the prior-run variants belong to C18's metadata oracle)


def trace_check(log, started, what):
    """create -> exactly one of save/abort for that id, before anything else."""
    ev = [e for e in log if e[0] in ('create', 'save', 'abort')]
    if not started:
        return None if not ev else viol('trace:%s:touched-cassette-without-recording' % what, 'no recording should have been started', [], ev)
    if len(ev) != 2 or ev[0][0] != 'create' or ev[1][0] not in ('save', 'abort') or ev[1][1] != ev[0][1]:
        kinds = [e[0] for e in ev]
        n_fin = sum(1 for k in kinds if k in ('save', 'abort'))
        sig = 'trace:%s:%s' % (what, 'never-finalised' if n_fin == 0 else 'finalised-%d-times' % n_fin if n_fin > 1 else 'malformed')
        return viol(sig, 'every started recording is finalised exactly once (save or abort)', ['create', 'save|abort'], ev)
    return None


def run_case(case):
    b = F.execute(case)
    try:
        res = _judge(case, b)
    finally:
        b.box.close()
    if b.R['final'] == 'save_failed' and not F.GLOBS[case['glob']].get('save_raises'):
        # the save fails inside the cassette (the serializer refuses a value): "not at all" must hold in a store with real files too
        bf = F.execute(case, cas='file')
        try:
            more = _judge(case, bf)
        finally:
            bf.box.close()
        for v in more['viol']:
            v['sig'] = 'file-cassette:' + v['sig']
            res['viol'].append(v)
        res['evals'] += more['evals']
        res['extra'] = {'cases_repeated_on_file_cassette': 1}
    return res


def _stored(b, candidates):
    """ids for which the store holds anything at all (a whole recording or debris)."""
    if b.box.kind == 'mem':
        from playback.exceptions import NoSuchRecording
        out = []
        for rid in candidates:
            try:
                b.box.cassette.get_recording_metadata(rid)
                out.append(rid)
            except NoSuchRecording:
                pass
            except Exception:
                out.append(rid)   # something is there, though not a whole recording
        return sorted(out)
    import os
    names = os.listdir(b.box.dir)
    return sorted(rid for rid in candidates if any(rid.split('/')[-1] in fn for fn in names))


def _judge(case, b):
    viols = []
    R, r1 = b.R, b.r1
    v = trace_check(r1.log, R['started'], 'first')
    if v:
        viols.append(v)
    fin = [e[0] for e in r1.log if e[0] in ('save', 'abort')]
    exp_fin = {'saved': 'save', 'save_failed': 'save', 'aborted': 'abort', 'none': None}[R['final']]
    if not v and (fin[0] if fin else None) != exp_fin:
        viols.append(viol('finalisation:expected-%s:got-%s' % (exp_fin, fin[0] if fin else None),
                          'finalisation differs from the reference (saved only if every interception was captured and the sampling policy keeps it)',
                          R['final'], r1.log))
    created = [e[1] for e in r1.log if e[0] == 'create'] + [e[1] for e in (b.r2.log if b.r2 is not None else []) if e[0] == 'create']
    stored = _stored(b, created)
    if R['final'] == 'saved' and r1.rec_id not in stored:
        viols.append(viol('store:missing', 'a recording handed to save is not in the store', r1.rec_id, stored))
    if R['final'] != 'saved' and r1.rec_id in stored:
        viols.append(viol('store:unexpected', 'a recording that must not be persisted is in the store (final=%s)' % R['final'], [], stored))
    # whole: the stored recording holds every interception that executed
    rec = None
    if r1.rec_id in stored:
        try:
            rec = b.box.fresh().get_recording(r1.rec_id)
        except Exception as e:
            viols.append(viol('store:debris:%s' % type(e).__name__, 'the store holds something for this id that is not a whole recording', 'a recording or nothing', repr(e)))
    if rec is not None:
        keys = list(rec.get_all_keys())
        n_in = len([k for k in keys if k.startswith('input')])
        n_res = len([k for k in keys if k.startswith('output') and k.endswith('result')])
        n_out = len([k for k in keys if k.startswith('output') and not k.endswith('result')])
        exp = (len(R['inputs']), len(R['results']), len(R['outputs']) + (1 if R['op'] else 0))
        if (n_in, n_res, n_out) != exp:
            viols.append(viol('store:incomplete-content', 'stored recording does not hold exactly the interceptions that executed (inputs, results, outputs)',
                              exp, (n_in, n_res, n_out)))
    # second, fault free operation on the same recorder
    if b.r2 is not None:
        v2 = trace_check(b.r2.log, b.R2['started'], 'second')
        if v2:
            viols.append(v2)
        if b.r2.exc is not None:
            viols.append(viol('second:raised:%s' % type(b.r2.exc).__name__, 'fault-free operation after the faulty one raised', None, repr(b.r2.exc)))
    # every stored recording that is not flagged incomplete replays without a missing-key error
    replayed = 0
    for rid in stored:
        fresh = b.box.fresh()
        try:
            md = fresh.get_recording_metadata(rid)
        except Exception as e:
            viols.append(viol('store:debris:%s' % type(e).__name__, 'the store holds something for this id that is not a whole recording', 'a recording or nothing', repr(e)))
            continue
        if md.get('_tape_recorder_incomplete_recording', False):
            continue
        prog = b.prog if rid == r1.rec_id else dict(F.CLEAN2)
        env2 = P.Env(inner=fresh, kind=b.prog.get('kind', 'inst'), enabled=False)
        pl = P.replay(env2, rid, prog)
        replayed += 1
        obs = P.obs_canon(pl.obs) or ()
        if pl.exc is not None and not isinstance(pl.exc, P.Interrupt):
            viols.append(viol('replay:escaped:%s' % type(pl.exc).__name__, 'replay of a stored complete recording failed', 'Playback', repr(pl.exc)))
        elif any(o == ('exc', 'RecordingKeyError') and (rid != r1.rec_id or i >= len(P.obs_canon(r1.obs) or ()) or P.obs_canon(r1.obs)[i] != o)
                 for i, o in enumerate(obs)):   # (a body may itself have raised that type while recording: then it is the recorded outcome)
            viols.append(viol('replay:missing-key', 'a saved, complete recording replays with a missing-key error on unchanged code', 'no RecordingKeyError', obs))
        elif rid == r1.rec_id and obs != P.obs_canon(r1.obs) and not any(m[0] == 'hnone' for m in case['mods']):
            # (a handler that keeps nothing for a call is lossy by its own choice: only completeness is judged for it)
            viols.append(viol('replay:obs-differ', 'stored complete recording replays differently', P.obs_canon(r1.obs), obs))
    uniq = {}
    for x in viols:
        uniq.setdefault(x['sig'], x)
    return dict(viol=list(uniq.values()), obs=repr((R['final'], R['outcome'], len(R['inputs']), len(R['outputs']), len(R['results']), R['discarded'], fin, [e[0] for e in (b.r2.log if b.r2 else [])], replayed)),
                nontrivial=bool(case['mods']) or case['glob'] != 'none', evals=2 + replayed,
                transitions=len(b.prog['steps']) + 4 + replayed * len(b.prog['steps']))
