"""C20 - file interception preserves file bytes and honours the size limit (full trip through recorder and cassette)."""
from __future__ import annotations

import builtins
import itertools
import os
import shutil
import sys
import tempfile

from mc import cassettes
from mc.core import viol

ID = 'C20'
LEVEL = 'exploration'
RULE = ('every combination of content {empty, NUL, binary, CRLF/LF text, the placeholder text itself, 1 KiB pattern, exactly limit-1 / limit '
        '/ limit+1 bytes} x path passed positionally / by keyword x limit {explicit 16 B, 1 KiB, 1 MB, 0; environment variable 1, 1.0, 2; '
        'default} x input / output handler x instance / static interception x cassette {memory, file, S3(fake)}, each a full record -> save '
        '-> fetch from a fresh cassette object -> replay trip with a different target path at replay; plus the same path intercepted twice '
        'with same-length, same-mtime rewritten content. Non-trivial = content at or around the limit or with bytes a text round trip '
        'would corrupt.')
ASSUMPTIONS = ['limits are whole MB or exact binary fractions of a MB (fractional environment values are truncated by the library; not demanded)',
               'the path argument is excluded from the input key (capture_args=[]) so that replay may name another path']
PLACEHOLDER = b'above interception limit'
MB = 1024 * 1024
LIMITS = {'16B': ('explicit', 16.0 / MB, 16), '1KiB': ('explicit', 1.0 / 1024, 1024), '1MB': ('explicit', 1, MB), 'zero': ('explicit', 0, 0),
          'env1': ('env', '1', MB), 'env1.0': ('env', '1.0', MB), 'env2': ('env', '2', 2 * MB), 'default': ('env', None, 500 * MB)}


def contents(limit_bytes):
    base = {'empty': b'', 'nul': b'\x00', 'binary': b'\xff\xfe\x00binary\x80', 'newlines': b'line\r\nline\n\rend', 'placeholder-text': PLACEHOLDER,
            'pattern1k': bytes(range(256)) * 4}
    if 0 < limit_bytes <= 2 * MB:
        base['limit-1'] = b'a' * (limit_bytes - 1)
        base['limit'] = b'b' * limit_bytes
        base['limit+1'] = b'c' * (limit_bytes + 1)
    return base


def bounds(tier):
    return {'limits': list(LIMITS), 'contents': 9, 'handlers': ['input', 'output'], 'styles': ['instance', 'static'], 'path_passing': ['positional', 'keyword'],
            'cassettes': cassettes.KINDS}


def gen_cases(tier, seed):
    for lim in LIMITS:
        big = LIMITS[lim][2] >= MB
        for cname in contents(LIMITS[lim][2]):
            large = cname.startswith('limit') and big
            if not large and lim in ('16B', 'default') and cname in ('binary', 'limit+1', 'empty'):
                for handler in ('input', 'output'):   # the path is a bare file name relative to the working directory
                    yield {'limit': lim, 'content': cname, 'handler': handler, 'style': 'inst', 'passing': 'pos', 'cas': 'mem', 'bare': True}
                    yield {'limit': lim, 'content': cname, 'handler': handler, 'style': 'static', 'passing': 'kw', 'cas': 'file', 'bare': True}
            for handler, style, passing in itertools.product(('input', 'output'), ('inst', 'static'), ('pos', 'kw')):
                cas_list = cassettes.KINDS if not large else (['mem'] if tier == 'quick' else cassettes.KINDS)
                if large and tier == 'quick' and (style, passing) != ('inst', 'pos'):
                    continue
                for cas in cas_list:
                    yield {'limit': lim, 'content': cname, 'handler': handler, 'style': style, 'passing': passing, 'cas': cas}
    for lim in ('16B', '1MB', 'default'):
        for cas in cassettes.KINDS:
            # ONE handler object used for two different files in one operation (one below, one above a small limit)
            yield {'limit': lim, 'content': 'two-files', 'handler': 'output', 'style': 'inst', 'passing': 'pos', 'cas': cas}
            yield {'limit': lim, 'content': 'two-files', 'handler': 'output', 'style': 'static', 'passing': 'kw', 'cas': cas}
            yield {'limit': lim, 'content': 'twice', 'handler': 'output', 'style': 'inst', 'passing': 'pos', 'cas': cas}
            yield {'limit': lim, 'content': 'twice', 'handler': 'input', 'style': 'inst', 'passing': 'kw', 'cas': cas}
            # the same recorded input fetched twice in one replay, each time to be restored at a different path
            yield {'limit': lim, 'content': 'twice', 'handler': 'input', 'style': 'inst', 'passing': 'pos', 'cas': cas, 'two_dst': True}
            yield {'limit': lim, 'content': 'twice', 'handler': 'input', 'style': 'static', 'passing': 'kw', 'cas': cas, 'two_dst': True}
    for lim in ('16B', 'default'):
        for cname in ('binary', 'limit', 'limit+1', 'empty'):
            if cname in contents(LIMITS[lim][2]) and not (cname.startswith('limit') and LIMITS[lim][2] >= MB):
                for cas in cassettes.KINDS:   # recorded under the old alias, replayed through the renamed function that lists it as fallback
                    yield {'limit': lim, 'content': cname, 'handler': 'input', 'style': 'inst', 'passing': 'pos', 'cas': cas, 'via_fallback': True}
    for lim in ('16B', 'default', 'zero'):
        for cname in ('nul', 'limit', 'limit+1', 'empty', 'binary', 'pattern1k'):
            if cname not in contents(LIMITS[lim][2]) or (cname.startswith('limit') and LIMITS[lim][2] >= MB):
                continue
            for style, passing in (('inst', 'pos'), ('static', 'kw')):
                # a LONGER stale file is already at the path the replayed call names
                yield {'limit': lim, 'content': cname, 'handler': 'input', 'style': style, 'passing': passing, 'cas': 'mem', 'stale': 'longer'}


def make_op(tr, limit_spec):
    from playback.interception.files.input_file_interception import InputInterceptionFileDataHandler
    from playback.interception.files.output_file_interception import OutputInterceptionFileDataHandler
    kind, val, _ = limit_spec
    old = os.environ.pop('PLAYBACK_INTERCEPTED_FILE_SIZE_LIMIT', None)
    try:
        if kind == 'env' and val is not None:
            os.environ['PLAYBACK_INTERCEPTED_FILE_SIZE_LIMIT'] = val
        lim = val if kind == 'explicit' else None
        hin_i, hout_i = InputInterceptionFileDataHandler(1, 'file_path', lim), OutputInterceptionFileDataHandler(0, 'file_path', lim)  # outputs see args without self
        hin_s, hout_s = InputInterceptionFileDataHandler(0, 'file_path', lim), OutputInterceptionFileDataHandler(0, 'file_path', lim)
    finally:
        os.environ.pop('PLAYBACK_INTERCEPTED_FILE_SIZE_LIMIT', None)
        if old is not None:
            os.environ['PLAYBACK_INTERCEPTED_FILE_SIZE_LIMIT'] = old

    class FileOp(object):
        bodies = []

        @tr.operation()
        def execute(self, plan):
            out = []
            for fn, args, kw, between in plan:
                out.append(getattr(self, fn)(*args, **kw))
                if between:
                    between()
            return out

        @tr.intercept_input('fin', data_handler=hin_i, capture_args=[])
        def in_inst(self, file_path, tag=None):
            FileOp.bodies.append('in_inst')
            return file_path

        @tr.intercept_input('fin_renamed', data_handler=hin_i, capture_args=[], fallback_aliases=['fin'])
        def in_renamed(self, file_path, tag=None):
            FileOp.bodies.append('in_renamed')
            return file_path

        @staticmethod
        @tr.static_intercept_input('fins', data_handler=hin_s, capture_args=[])
        def in_static(file_path, tag=None):
            FileOp.bodies.append('in_static')
            return file_path

        @tr.intercept_output('fout', data_handler=hout_i)
        def out_inst(self, file_path, tag=None):
            FileOp.bodies.append('out_inst')
            return 'sent'

        @staticmethod
        @tr.static_intercept_output('fouts', data_handler=hout_s)
        def out_static(file_path, tag=None):
            FileOp.bodies.append('out_static')
            return 'sent'
    FileOp.__module__ = __name__
    FileOp.__qualname__ = 'FileOp'
    setattr(sys.modules[__name__], 'FileOp', FileOp)
    return FileOp, {'input': hin_i, 'output': hout_i, 'output-static': hout_s}


def run_case(case):
    from playback.tape_recorder import TapeRecorder
    scratch = tempfile.mkdtemp(prefix='mc_c20_')
    box = cassettes.Box(case['cas'])
    real_open = builtins.open
    opened = []

    def spy_open(file, *a, **k):
        if isinstance(file, str) and (file.startswith(scratch) or not os.path.isabs(file)):
            opened.append((os.path.basename(file), a[0] if a else k.get('mode', 'r')))
        return real_open(file, *a, **k)
    cwd0 = os.getcwd()
    try:
        spec = LIMITS[case['limit']]
        limit_bytes = spec[2]
        if case.get('bare'):
            os.chdir(scratch)
        viols = []
        two_files = case['content'] == 'two-files'
        twice = case['content'] == 'twice' or two_files
        content = b'first-content-A' if twice else contents(limit_bytes)[case['content']]
        content2 = b'other-content-B' if not two_files else b'a much longer second file ' * 3
        src = os.path.join(scratch, 'src.bin') if not case.get('bare') else 'src.bin'
        with real_open(src, 'wb') as f:
            f.write(content)
        tr = TapeRecorder(box.cassette)
        tr.enable_recording()
        Op, handlers = make_op(tr, spec)
        fn = {'input': 'in_', 'output': 'out_'}[case['handler']] + ('inst' if case['style'] == 'inst' else 'static')

        def call(path):
            return (fn, [path], {}, None) if case['passing'] == 'pos' else (fn, [], {'file_path': path}, None)

        def rewrite():
            st = os.stat(src)
            with real_open(src, 'wb') as f:
                f.write(content2)
            os.utime(src, ns=(st.st_atime_ns, st.st_mtime_ns))
        plan = [call(src)]
        src2 = os.path.join(scratch, 'second.bin') if not case.get('bare') else 'second.bin'
        if two_files:
            with real_open(src2, 'wb') as f:
                f.write(content2)
            plan = [call(src), call(src2)]
        elif twice:
            plan = [call(src)[:3] + (rewrite,), call(src)]
        builtins.open = spy_open
        try:
            rec_out = Op().execute(plan)
        finally:
            builtins.open = real_open
        expected = [PLACEHOLDER if len(c) > limit_bytes else c for c in ([content, content2] if twice else [content])]
        above = [len(c) > limit_bytes for c in ([content, content2] if twice else [content])]
        if two_files:
            for nm, ab in (('src.bin', above[0]), ('second.bin', above[1])):
                if ab and any(n == nm for n, m in opened):
                    viols.append(viol('above-limit-file-was-opened', 'a file strictly above the limit must never be read into the recording (%s)' % nm, [], opened))
        elif all(above) and any(n == 'src.bin' for n, m in opened):
            viols.append(viol('above-limit-file-was-opened', 'a file strictly above the limit must never be read into the recording (limit %s, %d bytes)' % (case['limit'], len(content)), [], opened))
        ids = list(box.fresh().iter_recording_ids('FileOp'))
        if len(ids) != 1:
            return dict(viol=[viol('harness:not-saved', 'recording not saved', 1, ids)], obs='unsaved')
        fresh = box.fresh()
        tr2 = TapeRecorder(fresh)
        Op2, handlers2 = make_op(tr2, spec)
        dst = os.path.join(scratch, 'replayed_target.bin') if not case.get('bare') else 'replayed_target.bin'
        if case['handler'] == 'input' and not twice:   # a stale file of the same size, other content, is already in place
            with real_open(dst, 'wb') as f:
                f.write(b'Z' * (len(PLACEHOLDER if len(content) > limit_bytes else content) + (9 if case.get('stale') == 'longer' else 0)))
        dst2 = dst + '.second'
        plan2 = [call(dst)] if not twice else [call(dst), call(dst2 if case.get('two_dst') else dst)]
        if case.get('via_fallback'):
            plan2 = [('in_renamed',) + c[1:] for c in plan2]
        snaps = []

        def pf(recording):
            Op2.bodies[:] = []
            plan3 = [(f_, a_, k_, (lambda: snaps.append(real_open(dst, 'rb').read() if os.path.exists(dst) else None))) for f_, a_, k_, _ in plan2]
            if case.get('two_dst'):
                plan3[1] = plan3[1][:3] + ((lambda: snaps.append(real_open(dst2, 'rb').read() if os.path.exists(dst2) else None)),)
            pf.out = Op2().execute(plan3)
        pf.out = None
        try:
            pb = tr2.play(ids[0], pf)
        except Exception as e:   # the code under test failed while replaying: a verdict, not a harness problem
            return dict(viol=[viol('replay:raised:%s' % type(e).__name__, 'replay of a recorded file %s raised (limit %s, content %s, %s path)' % (
                case['handler'], case['limit'], case['content'], 'bare relative' if case.get('bare') else 'absolute'), 'Playback', repr(e))], obs='raised', nontrivial=True)
        if pf.out is None:
            opout = [o.value for o in pb.playback_outputs if '_tape_recorder_operation' in o.key]
            return dict(viol=[viol('replay:operation-failed', 'the replayed operation failed inside the file %s interception (limit %s, content %s, %s path)' % (
                case['handler'], case['limit'], case['content'], 'bare relative' if case.get('bare') else 'absolute'), 'operation completes', repr(opout)[:300])], obs='op-failed', nontrivial=True)
        if Op2.bodies:
            viols.append(viol('body-executed-in-replay', 'intercepted bodies ran during replay', [], list(Op2.bodies)))
        if case['handler'] == 'input':
            exp_paths = [dst, dst2] if case.get('two_dst') else [dst] * len(plan2)
            if pf.out != exp_paths:
                viols.append(viol('input:returned-path', 'a replayed file input returns the path named by the replayed call', exp_paths, pf.out))
            got = snaps[-1] if snaps else None
            exp_last = expected[-1]   # same key: the last recorded content answers (an input is a function of alias + captured args)
            if got != exp_last:
                viols.append(viol('input:restored-bytes:%s' % _kind(case, content), 'file restored at the path named by the replayed call (limit %s, content %s, %d bytes)' % (
                    case['limit'], case['content'], len(content)), _short(exp_last), _short(got)))
            if os.path.exists(src) and real_open(src, 'rb').read() != (content2 if twice and not two_files else content):
                viols.append(viol('input:original-path-written', 'replay wrote to the recorded path instead of the path of the replayed call', 'untouched', 'changed'))
        else:
            h = handlers2['output' if case['style'] == 'inst' else 'output-static']
            for name, outs in (('recorded', pb.recorded_outputs), ('playback', pb.playback_outputs)):
                vals = sorted(((o.key, o.value) for o in outs if 'fout' in o.key), key=lambda kv: kv[0])
                holders = [h.restore_output_from_recording(v) for _, v in vals]
                got = [x.file_content for x in holders]
                exp = expected if name == 'recorded' else [PLACEHOLDER if False else None] * 0
                if name == 'recorded' and got != expected:
                    viols.append(viol('output:recorded-bytes:%s' % _kind(case, content), 'holder content of the recorded output(s) (limit %s, content %s, %d bytes)' % (
                        case['limit'], case['content'], len(content)), [_short(x) for x in expected], [_short(x) for x in got]))
                if name == 'recorded' and holders:
                    out_path = 'holder_out.bin' if case.get('bare') else os.path.join(scratch, 'holder_out.bin')
                    with real_open(out_path, 'wb') as f:   # whatever was at the target before is replaced, not patched
                        f.write(b'Y' * (len(expected[-1]) + 5))
                    try:
                        holders[-1].to_file(out_path)
                        written = real_open(out_path, 'rb').read()
                    except Exception as e:
                        written = repr(e)
                    if written != expected[-1]:
                        viols.append(viol('output:holder-to_file', 'InterceptedOutputFileHolder.to_file must write the held bytes to the given path', _short(expected[-1]),
                                          _short(written) if isinstance(written, bytes) else written))
                if name == 'recorded' and [x.output_file_path for x in holders] != ([src, src2] if two_files else [src] * len(holders)):
                    viols.append(viol('output:recorded-path', 'holder path of the recorded output', src, [x.output_file_path for x in holders]))
        uniq = {}
        for v in viols:
            uniq.setdefault(v['sig'], v)
        hard = case['content'] in ('limit-1', 'limit', 'limit+1', 'binary', 'newlines', 'placeholder-text', 'nul', 'twice') or case['limit'] == 'zero'
        return dict(viol=list(uniq.values()), obs=repr((case['handler'], case['limit'], case['content'], above)), nontrivial=hard, transitions=4)
    finally:
        builtins.open = real_open
        os.chdir(cwd0)
        box.close()
        shutil.rmtree(scratch, ignore_errors=True)


def _kind(case, content):
    return 'at-limit' if case['content'].startswith('limit') else case['content']


def _short(b):
    if b is None:
        return None
    return repr(b[:40]) + ('...(%d bytes)' % len(b) if len(b) > 40 else '')
