"""C04 - recording is transparent to the recorded service (sequential fault enumeration; the threaded part is in c04 'par' cases)."""
from __future__ import annotations

from mc import faultspace as F, progs as P
from mc.core import viol

ID = 'C04'
LEVEL = 'model_checking'
RULE = ('sequential part: every base program up to the length bound over 7 letters x single and paired placements of the tolerated faults '
        '(see C05) x endings x global variants incl. recording disabled / skipped class, compared call by call with the undecorated twin '
        '(identical returned object, identical raised exception object, every body exactly once with the identical argument objects); '
        'threaded part: worker-thread programs under every interleaving up to the preemption bound. Non-trivial = at least one fault placed.')
ASSUMPTIONS = ['the undecorated twin is the same interpreter with identity decorators', 'in-memory cassette behind a spy',
               'python -O (assert stripping) not considered']
OWN_EXC = ('E1', 'E2', 'UnserExc', 'Interrupt', 'RecordingKeyError')


def bounds(tier):
    return {'base_len_max': 2 if tier == 'quick' else 3, 'letters': 7, 'placements': 'single and pairs', 'endings': len(F.ENDS),
            'global_variants': len(F.GLOBS), 'threads': 'see threaded_* keys'}


def heavy(case):
    return case.get('engine') == 'sched'


def gen_cases(tier, seed):
    for c in F.gen(tier, letters='AHOGSNKW'):
        if not F.GLOBS[c['glob']].get('prior'):
            yield c
    from mc.checks import c04_threads
    for c in c04_threads.gen_cases(tier, seed):
        yield c


def run_case(case):
    if case.get('engine') == 'sched':
        from mc.checks import c04_threads
        return c04_threads.run_case(case)
    b = F.execute(case, second=False)
    try:
        return judge(case, b.prog, b.r1, b.end1, b.g)
    finally:
        b.box.close()


def judge(case, prog, r1, end1, g):
    viols = []
    t = P.twin(prog)
    # the operation as a whole
    if P.obs_canon(r1.obs) != P.obs_canon(t.obs):
        i = next((i for i, (a, c) in enumerate(zip(P.obs_canon(r1.obs), P.obs_canon(t.obs))) if a != c), -1)
        got = P.obs_canon(r1.obs)[i] if 0 <= i < len(r1.obs) else None
        viols.append(viol('service-sees:%s' % (got[1] if got and got[0] == 'exc' else 'different-value'),
                          'the decorated operation observed something else than the undecorated twin at call %d' % i, P.obs_canon(t.obs), P.obs_canon(r1.obs)))
    et, er = type(t.exc).__name__ if t.exc is not None else None, type(r1.exc).__name__ if r1.exc is not None else None
    if et != er:
        viols.append(viol('operation-outcome:twin=%s:decorated=%s' % (et, er), 'the decorated operation ended differently from the undecorated one', et, er))
    elif r1.exc is None and t.exc is None:
        if r1.result is not end1:
            viols.append(viol('operation-result:not-identical-object', 'the operation must return the very object the code returned', id(end1), id(r1.result)))
    else:
        own = end1 if end1 is not None else next((e['exc'] for e in r1.journal if isinstance(e.get('exc'), P.Interrupt)), None)
        if r1.exc is not own:
            viols.append(viol('operation-exception:not-identical-object', 'the operation must raise the very exception object the code raised', repr(own), repr(r1.exc)))
    # every interception call
    for n, c in enumerate(r1.calls):
        bodies = c.get('bodies', [])
        if len(bodies) != 1:
            viols.append(viol('body-executed-%d-times' % len(bodies), 'each wrapped body executes exactly once (call %d %s)' % (n, c['step']['fn']), 1, len(bodies)))
            continue
        e = bodies[0]
        static_off = 0
        if len(e['args']) != len(c['args']) or any(x is not y for x, y in zip(e['args'], c['args'])) or \
                set(e['kw']) != set(c['kw']) or any(e['kw'][k] is not c['kw'][k] for k in c['kw']):
            viols.append(viol('body-arguments:not-identical-objects', 'the body must receive the caller\'s argument objects (call %d %s)' % (n, c['step']['fn']),
                              'same objects', 'different objects / different arguments'))
        if 'ret' in e and ('ret' not in c or c['ret'] is not e['ret']):
            viols.append(viol('call-result:not-identical-object', 'the caller must receive the very object the body returned (call %d %s, fault=%s)' % (
                n, c['step']['fn'], c['step'].get('fault')), repr(e.get('ret')), repr(c.get('ret', c.get('exc')))))
        if 'exc' in e and c.get('exc') is not e['exc']:
            viols.append(viol('call-exception:not-identical-object', 'the caller must receive the very exception the body raised (call %d %s)' % (n, c['step']['fn']),
                              repr(e['exc']), repr(c.get('exc', c.get('ret')))))
    jb = [(e['fn'], P.canon(list(e['args'])), P.canon(e['kw'])) for e in r1.journal if e['fn'] != '<extractor>']
    tb = [(e['fn'], P.canon(list(e['args'])), P.canon(e['kw'])) for e in t.journal if e['fn'] != '<extractor>']
    if sorted(map(repr, jb)) != sorted(map(repr, tb)):
        viols.append(viol('bodies-multiset-differs', 'bodies executed under recording differ from the undecorated run', tb, jb))
    for o in P.obs_canon(r1.obs) or ():
        if o[0] == 'exc' and o[1] not in OWN_EXC:
            viols.append(viol('framework-exception-into-service:%s' % o[1], 'an exception originating in the recorder reached the service', 'only the program\'s own exceptions', o))
    if r1.exc is not None and type(r1.exc).__name__ not in OWN_EXC:
        viols.append(viol('framework-exception-out-of-operation:%s' % type(r1.exc).__name__, 'an exception originating in the recorder left the operation', et, repr(r1.exc)))
    if g.get('enabled') is False and r1.log:
        viols.append(viol('disabled:cassette-touched', 'with recording disabled the decorators never touch the cassette', [], r1.log))
    if (g.get('params') or {}).get('skipped') and not g.get('sub') and r1.log:
        viols.append(viol('skipped:cassette-touched', 'operations of skipped classes never touch the cassette', [], r1.log))
    uniq = {}
    for x in viols:
        uniq.setdefault(x['sig'], x)
    return dict(viol=list(uniq.values()), obs=repr((P.obs_canon(r1.obs), er, [e[0] for e in r1.log])),
                nontrivial=bool(case.get('mods')) or case.get('glob') != 'none', transitions=len(prog['steps']) * 2 + 2)


def replay_one(case, violation):
    from mc.checks import c04_threads
    return c04_threads.replay_one(case, violation)
