"""C12 - asynchronous recording stores exactly what synchronous recording would (schedule exploration of the real async cassette)."""
from __future__ import annotations

import threading

from mc import sched as S
from mc.core import viol, HarnessError

ID = 'C12'
CHUNK = 1
LEVEL = 'model_checking'
RECHECK = 4   # cases are whole schedule explorations: fewer of them are re-executed for the determinism check
RULE = ('the real AsyncRecordOnlyTapeCassette / AsyncRecording with Lock / Event / Thread replaced by scheduler-owned ones; workloads W1..W12 '
        '(1 producer; 1 producer two recordings; 2 producers a recording each; 2 producers writing one recording saved by the closer; 3 '
        'producers one write each; nothing written; producer writing while another saves; W8 a recording aborted between two saved ones; W9 a burst of 1100 writes pending at close (default schedules only); W10/W11 close, close again, start again, record again; W12 two metadata writes on one recording) x every placement of ONE failing wrapped '
        'operation (and none) x flush-timer budget 0..2 x ALL interleavings of producers, closer and flusher up to the preemption bound '
        '(line granularity in the module, opcode granularity in every function that touches the operation buffer or its lock; storage '
        'calls are scheduling points). states = distinct (journal, final store) outcomes; transitions = scheduling points executed.')
ASSUMPTIONS = ['join(timeout_on_close) is modelled as not timing out', 'daemon-thread death at interpreter exit is out of scope',
               'opcode-granularity preemption over-approximates what CPython can do', 'requests are ordered when issued by one thread or related by start/join']

CUR = [None]
_installed = []


def install():
    """Rebinds every threading primitive the async module holds (found by identity) to the scheduler-owned equivalent."""
    import playback.tape_cassettes.asynchronous.async_record_only_tape_cassette as A
    if _installed:
        return _installed
    real = {'Lock': threading.Lock, 'Event': threading.Event, 'Thread': threading.Thread, 'RLock': threading.RLock,
            'Condition': threading.Condition, 'Semaphore': threading.Semaphore, 'BoundedSemaphore': threading.BoundedSemaphore}
    unmodelled = {'Timer': threading.Timer, 'Barrier': threading.Barrier}
    for n, v in list(vars(A).items()):
        for kind, r in real.items():
            if v is r:
                k2 = 'Semaphore' if kind == 'BoundedSemaphore' else kind
                setattr(A, n, (lambda kind=k2: (lambda *a, **k: getattr(CUR[0], kind)(*a, **k)))())
                _installed.append(n)
        for kind, r in unmodelled.items():
            if v is r:
                raise HarnessError('async cassette uses threading.%s, which the scheduler does not model' % kind)
        if v is threading:
            import types
            shim = types.SimpleNamespace(**{k: (lambda k=k: (lambda *a, **kw: getattr(CUR[0], 'Semaphore' if k == 'BoundedSemaphore' else k)(*a, **kw)))() for k in real})
            shim.current_thread = threading.current_thread
            shim.local = threading.local
            shim.get_ident = threading.get_ident
            setattr(A, n, shim)
            _installed.append(n)
    if not _installed:
        raise HarnessError('no threading primitive found in the async cassette module: seam scan must be extended')
    return _installed


# workloads: producers = list of op lists; op = ('set', rec, key) | ('meta', rec, key) | ('save', rec); closer_ops run by main after joining
WORKLOADS = {
    'W1': {'recs': 1, 'producers': [[('set', 0, 'a'), ('set', 0, 'b'), ('meta', 0, 'm'), ('save', 0)]], 'closer': []},
    'W2': {'recs': 2, 'producers': [[('set', 0, 'a'), ('save', 0), ('set', 1, 'b'), ('meta', 1, 'm'), ('save', 1)]], 'closer': []},
    'W3': {'recs': 2, 'producers': [[('set', 0, 'a'), ('save', 0)], [('set', 1, 'b'), ('save', 1)]], 'closer': []},
    'W4': {'recs': 1, 'producers': [[('set', 0, 'a'), ('set', 0, 'b')], [('set', 0, 'c'), ('meta', 0, 'm')]], 'closer': [('save', 0)]},
    'W5': {'recs': 1, 'producers': [[('set', 0, 'a')], [('set', 0, 'b')], [('set', 0, 'c')]], 'closer': [('save', 0)]},
    'W6': {'recs': 0, 'producers': [], 'closer': []},
    'W7': {'recs': 2, 'producers': [[('set', 0, 'a'), ('set', 0, 'b'), ('save', 0)], [('set', 1, 'c')]], 'closer': [('meta', 1, 'm'), ('save', 1)]},
    # a recording that is aborted (what the recorder does on discard / sampling / failed interception) between two that are saved
    'W8': {'recs': 3, 'producers': [[('set', 0, 'a'), ('save', 0), ('set', 1, 'b'), ('abort', 1), ('set', 2, 'c'), ('save', 2)]], 'closer': []},
    # a burst: more operations buffered at close() than any plausible batch size
    'W9': {'recs': 1, 'producers': [[('set', 0, 'k%04d' % i) for i in range(1100)] + [('save', 0)]], 'closer': [], 'max_steps': 400000},
    # close twice, then try to start again: either the restart is refused, or what is accepted afterwards is stored like anything else
    'W10': {'recs': 2, 'producers': [], 'closer': [('set', 0, 'a'), ('save', 0), ('close',), ('close',), ('start',), ('set', 1, 'b'), ('meta', 1, 'm'), ('save', 1)]},
    'W11': {'recs': 2, 'producers': [[('set', 0, 'a'), ('save', 0)]], 'closer': [('close',), ('start',), ('set', 1, 'b'), ('save', 1), ('close',), ('close',)]},
}
WORKLOADS['W12'] = {'recs': 1, 'producers': [[('meta', 0, 'm1'), ('set', 0, 'a'), ('meta', 0, 'm2'), ('save', 0)]], 'closer': []}   # two metadata writes on one recording
CONTROL = ('abort', 'close', 'start')


def all_ops(w):
    ops = []
    for pi, p in enumerate(w['producers']):
        ops += [(pi, op) for op in p]
    ops += [('closer', op) for op in w['closer']]
    return ops


# (workload, timer budget, which fault placements, preemption bound, shards)
PLAN_QUICK = [('W1', 0, 'all', 1, 1), ('W1', 1, 'all', 1, 2), ('W1', 2, 'none', 1, 4), ('W2', 0, 'all', 1, 1), ('W2', 1, 'all', 1, 2),
              ('W3', 0, 'all', 1, 4), ('W3', 1, 'none', 1, 12), ('W4', 0, 'all', 1, 4), ('W4', 1, 'none', 1, 12), ('W5', 0, 'none', 1, 24), ('W1', 0, 'none', 2, 8), ('W2', 0, 'none', 2, 12),
              ('W6', 0, 'all', 1, 1), ('W6', 1, 'all', 1, 1), ('W6', 2, 'all', 1, 1), ('W7', 0, 'all', 1, 4), ('W7', 1, 'none', 1, 12),
              ('W8', 0, 'all', 1, 2), ('W8', 1, 'none', 1, 4), ('W9', 0, 'none', 0, 1), ('W10', 0, 'none', 1, 1), ('W10', 1, 'none', 1, 2), ('W11', 0, 'none', 1, 2), ('W11', 1, 'none', 1, 4), ('W12', 0, 'all', 1, 1), ('W12', 1, 'all', 1, 2)]
PLAN_THOROUGH = [('W1', 0, 'all', 2, 4), ('W1', 1, 'all', 2, 16), ('W1', 2, 'none', 2, 32), ('W2', 0, 'all', 2, 8), ('W2', 1, 'none', 2, 32),
                 ('W3', 0, 'all', 2, 64), ('W4', 0, 'all', 2, 64), ('W7', 0, 'all', 2, 64),
                 # three preemptions on the one-producer workloads, two on everything else incl. the three-producer one
                 ('W1', 0, 'none', 3, 256), ('W1', 1, 'none', 3, 512), ('W2', 0, 'none', 3, 256),
                 ('W3', 1, 'none', 2, 512), ('W4', 1, 'none', 2, 512), ('W7', 1, 'none', 2, 512), ('W5', 0, 'none', 2, 1024),
                 ('W3', 0, 'all', 1, 2), ('W3', 1, 'all', 1, 6), ('W3', 2, 'none', 1, 12), ('W4', 0, 'all', 1, 2), ('W4', 1, 'all', 1, 6),
                 ('W4', 2, 'none', 1, 12), ('W5', 0, 'all', 1, 12), ('W5', 1, 'none', 1, 48), ('W6', 0, 'all', 2, 1), ('W6', 2, 'all', 2, 1),
                 ('W7', 0, 'all', 1, 2), ('W7', 1, 'all', 1, 6), ('W7', 2, 'none', 1, 12), ('W2', 2, 'all', 1, 2),
                 ('W8', 0, 'all', 2, 16), ('W8', 1, 'all', 1, 4), ('W8', 1, 'none', 2, 64), ('W9', 0, 'none', 0, 1), ('W9', 1, 'none', 0, 1),
                 ('W10', 0, 'all', 2, 4), ('W10', 2, 'none', 2, 16), ('W11', 0, 'all', 2, 16), ('W11', 2, 'none', 2, 64), ('W12', 0, 'all', 2, 4), ('W12', 1, 'all', 2, 16)]


def plan(tier):
    return PLAN_QUICK if tier == 'quick' else PLAN_THOROUGH


def bounds(tier):
    return {'plan(workload, timer budget, fault placements, preemption bound, shards)': plan(tier),
            'workloads': {k: [p if len(p) < 20 else '%d operations: %s ... %s' % (len(p), p[:2], p[-2:]) for p in v['producers']] + [{'closer': v['closer']}] for k, v in WORKLOADS.items()},
            'granularity': 'line events in the module + opcode events in every function touching the buffer or its lock + storage calls'}


def gen_cases(tier, seed):
    for wn, K, fails, bound, shards in plan(tier):
        ops = all_ops(WORKLOADS[wn])
        for fail in ([None] + [i for i in range(len(ops)) if ops[i][1][0] not in CONTROL] if fails == 'all' else [None]):
            for sh in range(shards):
                yield {'w': wn, 'fail': fail, 'K': K, 'bound': bound, 'shard': [sh, shards]}


def label_of(op):
    return ':'.join(map(str, op))


def execute(case, prefix):
    """One execution of the workload under the schedule `prefix` on the real async cassette."""
    install()
    import playback.tape_cassettes.asynchronous.async_record_only_tape_cassette as A
    from playback.tape_cassettes.in_memory.in_memory_tape_cassette import InMemoryTapeCassette
    from playback.recordings.memory.memory_recording import MemoryRecording
    w = WORKLOADS[case['w']]
    ops = all_ops(w)
    fail_label = label_of(ops[case['fail']][1]) if case['fail'] is not None else None
    s = S.Sched(prefix, trace_files=('async_record_only_tape_cassette.py',),
                opcode_attrs=('_recording_operation_buffer', '_lock', '_condition', '_cond'), timer_budget=case['K'], max_steps=w.get('max_steps', 6000))
    CUR[0] = s
    journal = []
    holder = {}
    saved = {}

    def storage(label):
        c = holder.get('c')
        # callers never wait for the wrapped storage: the thread that executes a storage call must not hold ANY lock of the
        # module (the buffer lock, a per-recording lock, a condition's lock ...) while the storage works
        lock_owner = s.cur.name if any(lk.owner is s.cur for lk in s.locks) else None
        journal.append((label, lock_owner, ()))
        s.point(('storage', label))     # the wrapped storage is slow: other threads may run meanwhile
        if label == fail_label:
            raise IOError('wrapped storage fails by design: ' + label)

    class SpyRec(MemoryRecording):
        def _set_data(self, key, value):
            storage('set:%s:%s' % (self.idx, key))
            MemoryRecording._set_data(self, key, value)

        def _add_metadata(self, metadata):
            storage('meta:%s:%s' % (self.idx, sorted(metadata)[0]))
            MemoryRecording._add_metadata(self, metadata)

    class Spy(InMemoryTapeCassette):
        n = 0

        def create_new_recording(self, category):
            r = SpyRec('cat/%d' % Spy.n)
            r.idx = Spy.n
            Spy.n += 1
            return r

        def _save_recording(self, recording):
            storage('save:%s' % recording.idx)
            # what a real store would persist at this moment
            saved[recording.id] = (sorted((k, repr(v)) for k, v in recording.recording_data.items()), sorted(recording.recording_metadata.items()))

        def close(self):
            journal.append(('close', None, ()))

    inner = Spy()
    out = {'close_returned': False, 'errors': []}

    def run_op(c, recs, op):
        try:
            if op[0] == 'set':
                recs[op[1]].set_data(op[2], ['v', op[2]])
            elif op[0] == 'meta':
                recs[op[1]].add_metadata({op[2]: 1})
            elif op[0] == 'abort':
                c.abort_recording(recs[op[1]])
            elif op[0] == 'close':
                c.close()
            else:
                c.save_recording(recs[op[1]])
        except BaseException as e:
            if isinstance(e, S.Abort):
                raise
            out['errors'].append((label_of(op), repr(e)))

    def main():
        c = A.AsyncRecordOnlyTapeCassette(inner, flush_interval=0.1, timeout_on_close=10)
        holder['c'] = c
        # opcode granularity in every function that touches the shared containers or the locks guarding them - whatever they are called
        import collections
        shared = set()

        def scan(obj, depth):
            for k, v in vars(obj).items():
                if isinstance(v, (list, dict, set, collections.deque, S.VLock, S.VRLock, S.VCondition, S.VSemaphore)):
                    shared.add(k)
                elif depth < 3 and type(v).__module__ == A.__name__ and hasattr(v, '__dict__'):
                    scan(v, depth + 1)   # a private helper object of the module that holds the state on the cassette's behalf
        scan(c, 0)
        if not shared:
            raise HarnessError('the asynchronous cassette keeps no container / lock attribute: granularity selection must be extended')
        if not shared <= s.opcode_attrs:
            s.opcode_attrs |= shared
            s._fine.clear()
        c.start()
        recs = [c.create_new_recording('cat') for _ in range(w['recs'])]
        threads = []
        for pi, p in enumerate(w['producers']):
            threads.append(s.spawn((lambda p=p: [run_op(c, recs, op) for op in p]), 'producer%d' % pi))
        if threads:
            s.point(('spawned',))
            s.block_until(lambda: all(t.done for t in threads), ('join-producers',))
        for op in w['closer']:
            if op[0] == 'start':
                try:
                    c.start()
                    out['restarted'] = True
                except RuntimeError as e:   # refusing to start again is a legitimate answer: nothing accepted, nothing lost
                    out['restart_refused'] = repr(e)
                    break
                continue
            run_op(c, recs, op)
        c.close()
        out['close_returned'] = True

    s.spawn(main, 'closer')
    ok = s.run()
    for t in s.threads:
        if isinstance(t.exc, HarnessError):
            raise t.exc   # raised inside a scheduled thread: still a harness error, never part of a verdict
    store = dict(saved)
    return s, {'ok': ok, 'deadlock': s.deadlock, 'horizon': s.horizon, 'journal': journal, 'store': store, 'out': out,
               'alive': [t.name for t in s.threads if not t.done], 'timer_fired': getattr(s, 'timer_fired', 0)}


def expected(case, res=None):
    """Synchronous twin: the same requests applied directly, minus the failing one."""
    w = WORKLOADS[case['w']]
    ops = all_ops(w)
    if res is not None and res['out'].get('restart_refused'):   # what follows a refused restart was never requested
        ops = ops[:[i for i, (_, op) in enumerate(ops) if op[0] == 'start'][0]]
    fail = case['fail']
    ops = [(who, op) if op[0] not in ('close', 'start') else (who, ('noop',)) for who, op in ops]
    data = {i: {} for i in range(w['recs'])}
    meta = {i: {} for i in range(w['recs'])}
    store = {}
    labels = []
    for i, (who, op) in enumerate(ops):
        if op[0] in ('noop', 'abort'):
            continue
        lab = {'set': lambda: 'set:%s:%s' % (op[1], op[2]), 'meta': lambda: 'meta:%s:%s' % (op[1], op[2]), 'save': lambda: 'save:%s' % op[1]}[op[0]]()
        labels.append((who, lab))
    # final store: every save that is not the failing op stores what had been applied (all writes of a recording precede its save by happens-before in every workload)
    for i, (who, op) in enumerate(ops):
        if i == fail or op[0] in ('noop', 'abort'):
            continue
        if op[0] == 'set':
            data[op[1]][op[2]] = repr(['v', op[2]])
        elif op[0] == 'meta':
            meta[op[1]][op[2]] = 1
    for i, (who, op) in enumerate(ops):
        if op[0] == 'save' and i != fail:
            store['cat/%d' % op[1]] = (sorted(data[op[1]].items()), sorted(meta[op[1]].items()))
    return labels, store


def judge(case, res):
    viols = []
    labels, exp_store = expected(case, res)
    aborted = {op[1] for _, op in all_ops(WORKLOADS[case['w']]) if op[0] == 'abort'}
    if res['deadlock'] or res['horizon'] or not res['out']['close_returned'] or res['alive']:
        viols.append(viol('liveness:%s' % ('deadlock' if res['deadlock'] else 'step-horizon' if res['horizon'] else 'close-did-not-return' if not res['out']['close_returned'] else 'thread-left-running'),
                          'the run must terminate: close() returns and the flusher is finished', 'terminated', {k: res[k] for k in ('deadlock', 'horizon', 'alive')}))
        return viols
    if res['out']['errors']:
        viols.append(viol('caller-saw-error', 'a producer / closer call raised', [], res['out']['errors']))
    applied = [j[0] for j in res['journal'] if j[0] != 'close']
    want = [lab for _, lab in labels]
    # (i) exactly once
    # writes of a recording that is aborted instead of saved can never be observed: applying them or not is the code's choice
    missing = [x for x in want if applied.count(x) == 0 and not (x.split(':')[0] in ('set', 'meta') and int(x.split(':')[1]) in aborted)]
    dup = sorted({x for x in applied if applied.count(x) > 1})
    if missing:
        viols.append(viol('lost-operation:%s' % missing[0].split(':')[0], 'requested before close but never applied to the wrapped storage', want, applied))
    if dup:
        viols.append(viol('duplicated-operation', 'applied more than once', want, applied))
    # request order: program order per requester; closer operations after everything of the joined producers
    pos = {x: applied.index(x) for x in want if x in applied}
    by_who = {}
    for who, lab in labels:
        by_who.setdefault(who, []).append(lab)
    for who, labs in by_who.items():
        seq = [pos[x] for x in labs if x in pos]
        if seq != sorted(seq):
            viols.append(viol('order:program-order', 'operations requested by %s were applied out of request order' % (who,), labs, applied))
    if 'closer' in by_who:
        first_closer = min([pos[x] for x in by_who['closer'] if x in pos] or [10 ** 9])
        late = [x for who, labs in by_who.items() if who != 'closer' for x in labs if x in pos and pos[x] > first_closer]
        if late:
            viols.append(viol('order:after-join', 'an operation of a joined producer was applied after a later request of the closer', 'producers first', applied))
    close_pos = [i for i, j in enumerate(res['journal']) if j[0] == 'close']
    if close_pos and any(i > close_pos[-1 if res['out'].get('restarted') else 0] for i, j in enumerate(res['journal']) if j[0] != 'close'):
        viols.append(viol('wrapped-closed-before-drained', 'the wrapped cassette was closed before all pending operations were applied', 'close last', [j[0] for j in res['journal']]))
    if not close_pos:
        viols.append(viol('wrapped-never-closed', 'close() must close the wrapped cassette', 'close', [j[0] for j in res['journal']]))
    # (ii)/(iii) same store as the synchronous twin (a failing operation removes only itself)
    if res['store'] != exp_store and not missing and not dup:
        viols.append(viol('store-differs-from-synchronous-twin', 'stored recordings after close differ from recording directly', exp_store, res['store']))
    # (iv) callers never wait for the wrapped storage
    held = [j for j in res['journal'] if j[0] != 'close' and (j[1] is not None or j[2])]
    if held:
        viols.append(viol('storage-call-under-lock', 'a wrapped storage call was made while the buffer lock was held / a producer was blocked', 'lock free', held[:3]))
    return viols


def run_case(case):
    def run_one(prefix):
        s, res = execute(case, prefix)
        return s, res
    ex = S.explore(run_one, case['bound'], max_execs=80000, shard=tuple(case.get('shard', (0, 1))), shard_depth=2 if case.get('shard', (0, 1))[1] > 4 else 1)
    viols = []
    outcomes = set()
    transitions = 0
    first = None
    for choices, res in ex['results']:
        outcomes.add(repr((tuple(j[0] for j in res['journal']), sorted(res['store'].items()), res['deadlock'])))
        for v in judge(case, res):
            if not any(x['sig'] == v['sig'] for x in viols):
                v['schedule'] = choices
                viols.append(v)
    # replay determinism of the reported schedule
    if viols:
        s2, res2 = execute(case, viols[0]['schedule'])
        if viols[0]['sig'] not in [v['sig'] for v in judge(case, res2)]:
            raise HarnessError('schedule did not reproduce its violation: nondeterminism not owned')
    caps = ['execution cap 60000 hit for %s' % case] if ex['capped'] else []
    return dict(viol=viols, obs=repr(sorted(outcomes))[:3000], states=list(outcomes), nontrivial=ex['executions'] > 1, ntkey=repr(case),
                evals=ex['executions'], transitions=ex['executions'] * max(1, ex['max_points']), caps=caps,
                extra={'schedules': ex['executions'], 'max_scheduling_points_per_execution': ex['max_points'], 'max_branching_points_default_schedule': ex['branching_points_default']})


def replay_one(case, violation):
    """Re-executes exactly the recorded schedule (twice: the second run must agree) and judges it."""
    S.explore(lambda p: execute(case, p), 0, max_execs=1)   # warm-up of the tracer
    s1, r1 = execute(case, violation['schedule'])
    s2, r2 = execute(case, violation['schedule'])
    if repr(r1['journal']) != repr(r2['journal']):
        raise HarnessError('the same schedule gave two different executions: nondeterminism not owned')
    print('journal of wrapped-storage calls:', [j[0] for j in r1['journal']])
    print('final store:', r1['store'])
    return judge(case, r1)
