"""C09 - the recorder returns to idle; every run is independent of history (explicit-state search over run histories)."""
from __future__ import annotations

import itertools

from mc import progs as P
from mc.core import viol

ID = 'C09'
LEVEL = 'model_checking'
RULE = ('explicit-state BFS over histories of runs on ONE recorder object: 46-letter run alphabet (record ok / raising / interrupted in the '
        'operation, in an input body, in an output body / discarded by operation, body, key fault, handler fault / sampled out / forced / '
        'forced-but-ignored / many outputs / skipped class / disabled / failing save / failing extractor / worker-thread interception; '
        'the storage failing to abort a dropped recording / force and discard called with no active recording; replay ok / with outputs / missing id / of a recording not written by a recorder / escaping missing key / playback function raising or interrupted / operation raising); '
        'state = canon(vars(recorder)) + interception flag on main and pool thread; searched to closure, and additionally EVERY history up '
        'to the depth bound is followed by each of 11 differential probes compared with the same probe on a fresh recorder. Non-trivial = '
        'history with at least one abnormal run.')
ASSUMPTIONS = ['RNG state abstracted to the scripted draw counter (its value matters to C17 only)',
               'the recorder object and the thread-local flag are the only recorder state (module globals are covered by the probes, not the state hash)']

A = {'fn': 'in_a', 'a': ['x1'], 'ret': 'vlst'}
O1 = {'fn': 'out_a', 'a': ['x1'], 'ret': 'v1'}
O2 = {'fn': 'out_a', 'a': ['x2'], 'ret': 'v0'}
BASE = [A, O1, O2]
RUNS = {
    'rec-ok': ('rec', {'steps': BASE}),
    'rec-raise': ('rec', {'steps': BASE, 'end': 'raise:E1'}),
    'rec-raise-unser': ('rec', {'steps': BASE, 'end': 'raise:Unser'}),
    'rec-intr-op': ('rec', {'steps': BASE, 'end': 'intr'}),
    'rec-intr-inbody': ('rec', {'steps': [O1, dict(A, intr=True)]}),
    'rec-intr-outbody': ('rec', {'steps': [A, O1, dict(O2, intr=True)]}),
    'rec-discard-op': ('rec', {'steps': [O1, {'do': 'discard'}, A]}),
    'rec-discard-body': ('rec', {'steps': [O1, dict(A, pre=[{'do': 'discard'}]), O2]}),
    'rec-keyfault': ('rec', {'steps': [O1, dict(A, fault='key'), O2]}),
    'rec-keyfault-x3': ('rec-x3', {'steps': [O1, dict(A, fault='key'), O2]}),
    'rec-handlerfault': ('rec', {'steps': [O1, {'fn': 'out_hdl', 'a': ['x1'], 'fault': 'handler'}, O2]}),
    'rec-sampled-out': ('rec', {'steps': BASE, 'cls': 'K0'}),
    'rec-forced': ('rec', {'steps': [{'do': 'force'}] + BASE, 'cls': 'K0'}),
    'rec-forced-body-discard': ('rec', {'steps': [dict(A, pre=[{'do': 'force'}]), O1, {'do': 'discard'}], 'cls': 'K0'}),
    'rec-forced-ignored': ('rec', {'steps': [{'do': 'force'}] + BASE, 'cls': 'K0i'}),
    'rec-forced-intr': ('rec', {'steps': [{'do': 'force'}, O1], 'cls': 'K0', 'end': 'intr'}),
    'rec-many-outputs': ('rec', {'steps': [O1, O2, O1, O2, {'fn': 'out_b', 'a': ['x1']}, O1]}),
    'rec-skipped': ('rec', {'steps': BASE, 'cls': 'Ks'}),
    'rec-disabled': ('rec-disabled', {'steps': BASE}),
    'rec-save-raises': ('rec-save-raises', {'steps': BASE}),
    'rec-disabled-midway': ('rec-reenable', {'steps': [O1, {'do': 'disable'}, A, O2]}),
    'rec-disabled-in-body': ('rec-reenable', {'steps': [O1, dict(A, pre=[{'do': 'disable'}]), O2], 'end': 'raise:E1'}),
    'rec-ext-raises': ('rec', {'steps': BASE, 'cls': 'Kx'}),
    'rec-addmeta-raises': ('rec-bad-meta', {'steps': BASE}),
    'rec-addmeta-raises-forced': ('rec-bad-meta', {'steps': [{'do': 'force'}] + BASE, 'cls': 'K0'}),
    'rec-unser': ('rec', {'steps': [O1, dict(A, fault='unser')]}),
    'rec-raise-flex-unserializable': ('rec', {'steps': [O1], 'end': 'raise:FlexBad'}),
    'rec-thread': ('rec', {'steps': [O1, {'do': 'thr', 'steps': [A, O2]}]}),
    'rec-thread-intr': ('rec', {'steps': [O1, {'do': 'thr', 'steps': [dict(A, intr=True)]}, O2]}),
    'play-ok': ('play', {'steps': BASE}),
    'play-missing-id': ('play-missing-id', {'steps': BASE}),
    'play-missing-key': ('play', {'steps': [O1, {'fn': 'in_b', 'a': ['xs'], 'nocatch': True}, O2]}),
    'play-pf-raises': ('play-after', {'steps': [O1, O2]}),
    'play-pf-intr': ('play-after-intr', {'steps': [O1]}),
    'play-op-raises': ('play', {'steps': [O1], 'end': 'raise:E1'}),
    'play-op-intr': ('play', {'steps': [O1, O2], 'end': 'intr'}),
    'play-thread': ('play', {'steps': [O1, {'do': 'thr', 'steps': [A, O2]}]}),
    # replays of OTHER recordings (the studio replays many recordings through one recorder)
    'play-fallback-of-old-recording': ('play-r1', {'steps': [{'fn': 'in_fb', 'a': ['x1']}, O1]}),
    'play-recording-without-new-output': ('play', {'steps': [O1, {'fn': 'out_nf', 'a': ['x1']}, O2]}),
    # failures of the storage at the moment a recording is dropped; recordings that did not come from this recorder; control calls made
    # when no recording is active (skipped class, during a replay, between runs)
    'rec-sampled-out-abort-raises': ('rec-abort-raises', {'steps': BASE, 'cls': 'K0'}),
    'rec-discard-abort-raises': ('rec-abort-raises', {'steps': [O1, {'do': 'discard'}, A]}),
    'play-foreign-recording': ('play-foreign', {'steps': BASE}),
    'rec-skipped-forced': ('rec', {'steps': [{'do': 'force'}] + BASE, 'cls': 'Ks'}),
    'play-forced': ('play', {'steps': [{'do': 'force'}] + BASE}),
    'play-discards': ('play', {'steps': [O1, {'do': 'discard'}, A, O2]}),
    'control-calls-while-idle': ('idle-controls', {'steps': []}),
}
NORMAL = ('rec-ok', 'play-ok')
PROBES = ['rec', 'play', 'rate0', 'thread', 'rec-K0-forced', 'rec-interrupted', 'rec-raise-flex', 'rec-nested', 'play-new-alias', 'play-new-output', 'play-old-alias']
EXTRA_FUNCS = {'out_nf': {'t': 'out', 'style': 'inst', 'alias': 'on', 'fail': False, 'default': 'v0'}}
KCLASSES = {'K0': {'rate': 0.0}, 'K0i': {'rate': 0.0, 'ignore': True}, 'Ks': {'skipped': True}}


def bounds(tier):
    return {'run_alphabet': len(RUNS), 'probe_kinds': len(PROBES), 'exhaustive_history_depth': 2 if tier == 'quick' else 3,
            'bfs': 'to closure (depth cap 4 quick / 6 thorough)'}


class World(object):
    def __init__(self):
        P.RT.reset()
        self.env = P.Env(name='Op', funcs=EXTRA_FUNCS)
        for k, prm in KCLASSES.items():
            self.env.add_class(k, params=prm)
        self.env.add_class('Kx', ext='raise')
        P.RT.pworker = self.pw = P.PersistentWorker()
        # the fixed recording the replays use
        r = P.record({'steps': BASE}, env=self.env)
        self.fixed = r.rec_id
        # R1: data of the renamed input is stored under the OLD alias; R2: under the new alias; R3: has a result for the newer output
        self.r1 = P.record({'steps': [{'fn': 'in_a', 'a': ['x1'], 'ret': 'u1'}, O1]}, env=self.env).rec_id
        self.r2 = P.record({'steps': [{'fn': 'in_fb', 'a': ['x1'], 'ret': 'u2'}, O1]}, env=self.env).rec_id
        self.r3 = P.record({'steps': [O1, {'fn': 'out_nf', 'a': ['x1'], 'ret': 'u3'}, O2]}, env=self.env).rec_id
        fr = self.env.inner.create_new_recording('Op')
        fr.set_data('note', 'written through the cassette API')
        self.env.inner.save_recording(fr)
        self.foreign = fr.id

    def close(self):
        self.pw.stop()
        P.RT.pworker = None

    def run(self, name):
        kind, prog = RUNS[name]
        env = self.env
        if kind == 'rec':
            return P.record(prog, env=env)
        if kind == 'rec-x3':
            for _ in range(2):
                P.record(prog, env=env)
            return P.record(prog, env=env)
        if kind == 'play-r1':
            return P.replay(env, self.r1, prog)
        if kind == 'rec-disabled':
            env.tr.disable_recording()
            try:
                return P.record(prog, env=env)
            finally:
                env.tr.enable_recording()
        if kind == 'rec-reenable':   # the service switches recording off while the operation runs, and on again afterwards
            try:
                return P.record(prog, env=env)
            finally:
                env.tr.enable_recording()
        if kind == 'rec-save-raises':
            env.spy.save_raises = True
            try:
                return P.record(prog, env=env)
            finally:
                env.spy.save_raises = False
        if kind == 'rec-bad-meta':
            env.spy.bad_meta = True
            try:
                return P.record(prog, env=env)
            finally:
                env.spy.bad_meta = False
        if kind == 'rec-abort-raises':
            env.spy.abort_raises = True
            try:
                return P.record(prog, env=env)
            finally:
                env.spy.abort_raises = False
        if kind == 'play-foreign':   # a recording written through the cassette API, not by a recorder: no duration, no operation output
            return P.replay(env, self.foreign, prog)
        if kind == 'idle-controls':
            for f in (env.tr.force_sample_recording, env.tr.discard_recording):
                try:
                    f()
                except Exception:
                    pass
            return None
        if kind == 'play':
            return P.replay(env, self.fixed, prog)
        if kind == 'play-missing-id':
            return P.replay(env, 'Op/doesnotexist', prog)
        if kind == 'play-after':
            return P.replay(env, self.fixed, prog, after=ValueError)
        if kind == 'play-after-intr':
            return P.replay(env, self.fixed, prog, after=P.Interrupt)
        raise ValueError(kind)

    def state(self):
        import threading
        tr = self.env.tr
        d = {}
        for k, v in vars(tr).items():
            if k in ('tape_cassette', '_random', '_thread_locals', '_classes_recording_params') or isinstance(v, threading.local) or hasattr(v, 'getrandbits') or hasattr(v, 'create_new_recording'):
                continue
            d[k] = ('recording', getattr(v, 'id', None)) if hasattr(v, 'get_all_keys') else P.canon(v)
        d['flag-main'] = getattr(tr, '_currently_in_interception', None)
        d['flag-pool'] = self.pw.run(lambda: getattr(tr, '_currently_in_interception', None))
        # whatever per-thread state the recorder keeps, under whatever name: only what is SET (truthy) counts, on both threads
        import threading

        def tls_view():
            out = {}
            for k, v in vars(tr).items():
                if isinstance(v, threading.local):
                    for a in sorted(set(dir(v)) - set(dir(threading.local))):
                        val = getattr(v, a, None)
                        if not callable(val) and val:
                            out['%s.%s' % (k, a)] = P.canon(val)
            return out
        d['tls-main'] = tls_view()
        d['tls-pool'] = self.pw.run(tls_view)
        d['api'] = (tr.in_recording_mode, tr.in_playback_mode, tr.current_recording_id, tr.is_recording_sample_forced)
        return d

    def probe(self, kind):
        env = self.env
        if kind == 'rec':
            r = P.record({'steps': [O1, O2, A, {'fn': 'out_b', 'a': ['xs']}]}, env=env)
            return self._rec_summary(r)
        if kind == 'thread':
            r = P.record({'steps': [O1, {'do': 'thr', 'steps': [A, O2]}, O1]}, env=env)
            return self._rec_summary(r)
        if kind == 'play':
            pl = P.replay(env, self.fixed, {'steps': BASE})
            if pl.playback is None:
                return ('play-raised', type(pl.exc).__name__)
            al = P.all_aliases()
            return ('play', P.obs_canon(pl.obs), sorted(map(str, P.outputs_map(pl.playback.playback_outputs, al).items())),
                    sorted(map(str, P.outputs_map(pl.playback.recorded_outputs, al).items())), [e['fn'] for e in pl.journal])
        if kind == 'rate0':
            r = P.record({'steps': BASE, 'cls': 'K0'}, env=env)
            return ('rate0', [e[0] for e in r.log], type(r.exc).__name__ if r.exc else None)
        if kind == 'rec-interrupted':   # a run cut short must be flagged incomplete whatever ran before
            r = P.record({'steps': [O1, A], 'end': 'intr'}, env=env)
            return self._rec_summary(r)
        if kind == 'rec-raise-flex':    # a serializable instance of an exception type is recorded as the exception itself
            r = P.record({'steps': [O1], 'end': 'raise:FlexGood'}, env=env)
            return self._rec_summary(r)
        if kind == 'rec-nested':        # nested interceptions stay suppressed on this thread
            r = P.record({'steps': [{'fn': 'in_b', 'a': ['x2'], 'ret': 'vs', 'pre': [dict(A), dict(O1)]}, O1]}, env=env)
            return self._rec_summary(r)
        if kind == 'play-new-alias':    # a recording holding the renamed input under its NEW alias
            pl = P.replay(env, self.r2, {'steps': [{'fn': 'in_fb', 'a': ['x1']}, O1]})
            return ('play', P.obs_canon(pl.obs), type(pl.exc).__name__ if pl.exc else None)
        if kind == 'play-old-alias':    # a recording holding the renamed input under its OLD alias only: answered through the declared fallback
            pl = P.replay(env, self.r1, {'steps': [{'fn': 'in_fb', 'a': ['x1']}, O1]})
            return ('play', P.obs_canon(pl.obs), type(pl.exc).__name__ if pl.exc else None)
        if kind == 'play-new-output':   # a recording that HAS a result for the output other recordings lack
            pl = P.replay(env, self.r3, {'steps': [O1, {'fn': 'out_nf', 'a': ['x1']}, O2]})
            return ('play', P.obs_canon(pl.obs), type(pl.exc).__name__ if pl.exc else None)
        if kind == 'rec-K0-forced':
            r = P.record({'steps': [{'do': 'force'}, O1], 'cls': 'K0'}, env=env)
            r2 = P.record({'steps': [O1], 'cls': 'K0'}, env=env)
            return ('forced-then-plain', [e[0] for e in r.log], [e[0] for e in r2.log])
        raise ValueError(kind)

    def _rec_summary(self, r):
        if r.rec_id is None or ('save', r.rec_id) not in r.log:
            return ('rec-not-saved', [e[0] for e in r.log], type(r.exc).__name__ if r.exc else None)
        rec = self.env.inner.get_recording(r.rec_id)
        keys = sorted(rec.get_all_keys())
        md = rec.get_metadata()
        return ('rec', keys, [P.canon(rec.get_data(k)) if 'operation' not in k else P.op_canon(rec.get_data(k)['args'][0]) for k in keys],
                md.get('_tape_recorder_incomplete_recording'), md.get('_tape_recorder_exception_in_operation'),
                P.obs_canon(r.obs), type(r.exc).__name__ if r.exc else None)


IDLE_API = (False, False, None, False)


def invariant(st):
    bad = []
    if st['api'] != IDLE_API:
        bad.append(('api(in_recording_mode,in_playback_mode,current_recording_id,forced)', st['api']))
    if st.get('flag-main') or st.get('flag-pool'):
        bad.append(('interception-flag', (st.get('flag-main'), st.get('flag-pool'))))
    for k, v in st.items():
        if k == '_invoke_counter' and v not in (('dict',), ('obj', 'collections', 'Counter', ('dict',))) and 'Counter' in repr(v) and v[-1] != ('dict',):
            bad.append((k, v))
    return bad


_FRESH = {}
BFS_INFO = {}


def fresh_probe(kind):
    if kind not in _FRESH:
        w = World()
        try:
            _FRESH[kind] = w.probe(kind)
        finally:
            w.close()
    return _FRESH[kind]


def worker_init():
    # the baselines come from a recorder in a PRISTINE process state (before any history ran in this worker), so that state
    # kept at module / class level by the code under test cannot contaminate them
    for k in PROBES:
        fresh_probe(k)


def bfs(depth_cap):
    """Explicit-state search; a state is the history reaching it, deduplicated by the canonical recorder state."""
    import collections
    w = World()
    s0 = repr(sorted(w.state().items()))
    w.close()
    seen = {s0: []}
    frontier = collections.deque([[]])
    transitions = 0
    maxd = 0
    while frontier:
        hist = frontier.popleft()
        if transitions > 4000:   # a recorder state that never repeats (e.g. a random attribute) must not unroll for ever
            BFS_INFO['cap_hit'] = 'transition budget 4000'
            break
        if len(hist) >= depth_cap:
            BFS_INFO['cap_hit'] = depth_cap
            continue
        for name in RUNS:
            w = World()
            try:
                for h in hist + [name]:
                    w.run(h)
                k = repr(sorted(w.state().items()))
            finally:
                w.close()
            transitions += 1
            if k not in seen:
                seen[k] = hist + [name]
                frontier.append(hist + [name])
                maxd = max(maxd, len(hist) + 1)
    BFS_INFO.update({'bfs_states': len(seen), 'bfs_transitions': transitions, 'bfs_max_depth_of_new_state': maxd,
                     'bfs_closed': 'cap_hit' not in BFS_INFO, 'bfs_state_witnesses': {str(i): v for i, v in enumerate(seen.values())}})
    return seen


def gen_cases(tier, seed):
    for k in PROBES:   # baselines first: this process has not run any history yet (the workers are forked from it and inherit them)
        fresh_probe(k)
    bfs(4 if tier == 'quick' else 6)
    depth = 2 if tier == 'quick' else 3
    names = list(RUNS)
    for n in range(0, depth + 1):
        for h in itertools.product(names, repeat=n):
            if n == 3 and h[0] in NORMAL and h[1] in NORMAL:
                continue
            for p in PROBES:
                yield {'h': list(h), 'probe': p}


def run_case(case):
    viols = []
    w = World()
    states = []
    try:
        for i, name in enumerate(case['h']):
            w.run(name)
            st = w.state()
            states.append(repr(sorted(st.items())))
            bad = invariant(st)
            if bad:
                viols.append(viol('not-idle-after:%s:%s' % (name, bad[0][0]), 'recorder is not idle after run %d (%s) of history %s' % (i, name, case['h']), 'idle', bad))
        got = w.probe(case['probe'])
    finally:
        w.close()
    exp = fresh_probe(case['probe'])
    if not case['h'] and case['probe'] in ('play-old-alias', 'play-new-alias', 'play-new-output') and (exp[2] is not None or any(o and o[0] == 'exc' for o in (exp[1] or ()))):
        # the baseline itself is only "fresh" up to the few recordings the world needs: it must at least be answered completely
        viols.append(viol('probe-%s:not-answered-on-a-new-recorder' % case['probe'], 'a replay whose every call has an entry (own alias or declared fallback) in the recording was not answered from it',
                          'every call answered', exp))
    if got != exp:
        last = case['h'][-1] if case['h'] else 'nothing'
        # which earlier run is to blame: the shortest suffix that still shows it is not searched here; name the last abnormal run
        abn = [x for x in case['h'] if x not in NORMAL]
        viols.append(viol('probe-%s-differs-after:%s' % (case['probe'], abn[-1] if abn else last),
                          'probe %s after history %s differs from the same probe on a fresh recorder' % (case['probe'], case['h']), exp, got))
    return dict(viol=viols, obs=repr(got)[:2000], states=states, nontrivial=any(x not in NORMAL for x in case['h']),
                transitions=len(case['h']) + 1, evals=len(case['h']) + 1)


def finalize(ctx):
    ctx.notes.update({k: v for k, v in BFS_INFO.items()})
    ctx.notes['inter_run_states_seen_by_cases'] = len(ctx.states)
