"""C06 - input lookup keys identify calls by alias and captured argument values only.

Keys are never compared as text: every call of a universe is recorded in ONE operation with a unique value and each call must get
its own value back on replay (different key), also when rebuilt in another insertion order / on another instance / with other
excluded arguments / in child processes started with other PYTHONHASHSEED values (same key).
"""
from __future__ import annotations

import itertools
import json
import os
import shutil
import subprocess
import sys
import tempfile

from mc.core import viol

ID = 'C06'
LEVEL = 'exploration'
RULE = ('argument universe = all tree-shaped values of depth <= 1 (quick) / <= 2 over a reduced child set (thorough) built from 10 atoms '
        'and the constructors list / tuple / set / str-keyed dict / plain object with <= 2 children; every value is a call of one '
        'operation with a unique result, for 12 call configurations (instance, static, keyword, two arguments, capture by position/name, '
        'capture none, resolver alias, two aliases); replayed in-process in the original and the reversed insertion order, on another '
        'instance, with other excluded arguments, and in three child processes with PYTHONHASHSEED 1, 2, 3. Non-trivial = configuration '
        'with >= 2 calls whose arguments differ.')
ASSUMPTIONS = ['positional vs keyword passing of the same argument is not demanded to give the same key (the statement does not say so)',
               'values with shared sub-objects and dicts containing py/ keys are outside the tree-shaped domain',
               'child processes import the same /repo working tree']

ATOMS = [0, 1, True, None, 1.0, 'a', '1', '', 8, 'b', u'\xe9\u2713 \u05d0']
# values whose encoding is long (> 1 KiB) and that differ only at the very end / in the middle
LONG = [['long', 's', 1], ['long', 's', 2], ['long', 'l', 1], ['long', 'l', 2], ['long', 'm', 1], ['long', 'm', 2], ['long', 'h', 1], ['long', 'h', 2]]
BYTES_ATOM = ['bytes', 'a']


def build(spec, rev=False):
    t = spec[0]
    if t == 'atom':
        return ATOMS[spec[1]]
    if t == 'bytes':
        return spec[1].encode('latin1')
    if t == 'long':
        if spec[1] == 's':
            return 'x' * 1500 + str(spec[2])
        if spec[1] == 'l':
            return list(range(400)) + [spec[2]]
        if spec[1] == 'h':   # a few thousand ids: the encoding is far above any plausible size shortcut (> 16 KiB)
            return ['id-%06d' % i for i in range(1500)] + [spec[2]]
        return {'p': 'y' * 700 + str(spec[2]) + 'y' * 700}
    kids = spec[1]
    if rev:
        kids = list(reversed(kids))
    if t == 'list':
        return [build(k, rev) for k in spec[1]]
    if t == 'tuple':
        return tuple(build(k, rev) for k in spec[1])
    if t == 'set':
        s = set()
        for k in kids:
            s.add(build(k, rev))
        return s
    if t == 'dict':
        d = {}
        for k, v in kids:
            d[k] = build(v, rev)
        return d
    if t == 'obj':
        o = (Obj2 if len(spec) > 2 and spec[2] == 2 else Obj)()
        for k, v in kids:
            setattr(o, k, build(v, rev))
        return o
    raise ValueError(t)


class Obj(object):
    pass


class Obj2(object):
    pass


def has_big_set(spec):
    if spec[0] in ('long', 'atom', 'bytes'):
        return False
    if spec[0] == 'set' and len(spec[1]) >= 2:
        return True
    if spec[0] in ('list', 'tuple', 'set'):
        return any(has_big_set(k) for k in spec[1])
    if spec[0] in ('dict', 'obj'):
        return any(has_big_set(v) for _, v in spec[1])
    return False


def order_sensitive(spec):
    if spec[0] in ('long', 'atom', 'bytes'):
        return False
    if spec[0] in ('set', 'dict', 'obj') and len(spec[1]) >= 2:
        return True
    if spec[0] in ('list', 'tuple', 'set'):
        return any(order_sensitive(k) for k in spec[1])
    if spec[0] in ('dict', 'obj'):
        return any(order_sensitive(v) for _, v in spec[1])
    return False


def universe(tier):
    atoms = [['atom', i] for i in range(len(ATOMS))] + [BYTES_ATOM]
    out = list(atoms) + list(LONG)

    def cons(children_pool, maxn=2):
        res = []
        for n in range(0, maxn + 1):
            for combo in itertools.product(children_pool, repeat=n):
                res.append(['list', list(combo)])
                res.append(['tuple', list(combo)])
            for combo in itertools.combinations(children_pool, n):
                vals = []
                ok = True
                for c in combo:
                    if '"obj"' in json.dumps(c):
                        ok = False   # objects hash by address: a set of them has no process-independent structure (outside the domain)
                        break
                    try:
                        v = build(c)
                        hash(v)
                    except TypeError:
                        ok = False
                        break
                    if any(v == w for w in vals):   # 1 == True == 1.0 collapse inside a set
                        ok = False
                        break
                    vals.append(v)
                if ok:
                    res.append(['set', list(combo)])
            for keys in ([], ['p'], ['q'], ['p', 'q']):
                if len(keys) != n:
                    continue
                for combo in itertools.product(children_pool, repeat=n):
                    res.append(['dict', [[k, c] for k, c in zip(keys, combo)]])
                    res.append(['obj', [[k, c] for k, c in zip(keys, combo)]])
                    if n == 1:
                        res.append(['obj', [[k, c] for k, c in zip(keys, combo)], 2])
        return res
    d1 = cons(atoms)
    out += d1
    if tier == 'thorough':
        pool2 = [['atom', 0], ['atom', 1], ['atom', 5], ['list', []], ['list', [['atom', 0]]], ['tuple', [['atom', 0]]], ['tuple', []],
                 ['set', [['atom', 0], ['atom', 5]]], ['set', [['atom', 5], ['atom', 9]]], ['dict', [['p', ['atom', 0]]]], ['dict', []],
                 ['obj', [['p', ['atom', 0]]]], ['obj', [['p', ['atom', 0]]], 2], ['dict', [['p', ['atom', 0]], ['q', ['atom', 1]]]]]
        seen = {json.dumps(x) for x in out}
        for x in cons(pool2):
            if json.dumps(x) not in seen:
                out.append(x)
    return out


CONFIGS = ['inst', 'static', 'kw', 'two', 'cap-pos', 'cap-name', 'cap-none', 'cap-two', 'cap-static', 'resolver', 'two-aliases', 'fallback', 'fallback-resolver', 'fallback-both']


def bounds(tier):
    return {'universe': len(universe(tier)), 'configs': CONFIGS, 'hash_seeds': [0, 1, 2, 3], 'depth': 1 if tier == 'quick' else 2}


def gen_cases(tier, seed):
    for cfg in CONFIGS:
        yield {'cfg': cfg, 'tier': tier}


def make_ops(tr):
    from playback.tape_recorder import CapturedArg

    class KeyOp(object):
        def __init__(self, tag='t'):
            self.tag = tag
            self.noise = [tag] * 3

        @tr.operation()
        def execute(self, plan):
            out = []
            for fn, args, kw, ident in plan:
                self.ident = ident
                KeyOp.cur = (fn, ident)
                try:
                    out.append(getattr(self, fn)(*args, **kw))
                except Exception as e:
                    out.append(('EXC', type(e).__name__))
            KeyOp.results = out
            return None

        @tr.intercept_input('ka')
        def f_inst(self, *a, **k):
            return KeyOp.next()

        @tr.intercept_input('kb')
        def f_inst2(self, *a, **k):
            return KeyOp.next()

        @staticmethod
        @tr.static_intercept_input('ks')
        def f_static(*a, **k):
            return KeyOp.next()

        @tr.intercept_input('kc', capture_args=[CapturedArg(1, 'x')])
        def f_cap(self, x=None, y=None, **k):
            return KeyOp.next()

        @tr.intercept_input('k2', capture_args=[CapturedArg(1, 'x'), CapturedArg(2, 'y'), CapturedArg(4, 'w')])
        def f_cap2(self, x=None, y=None, z=None, w=None, **k):
            return KeyOp.next()

        @staticmethod
        @tr.static_intercept_input('ksc', capture_args=[CapturedArg(0, 'x'), CapturedArg(2, 'z')])
        def f_scap(x=None, y=None, z=None, **k):
            return KeyOp.next()

        @tr.intercept_input('kold')
        def f_old(self, *a, **k):
            return KeyOp.next()

        @tr.intercept_input('knew', fallback_aliases=['kmissing', 'kold'])
        def f_new(self, *a, **k):
            return KeyOp.next()

        @tr.intercept_input('kn', capture_args=[CapturedArg(None, 'x')])
        def f_capname(self, y=None, x=None, **k):
            return KeyOp.next()

        @tr.intercept_input('k0', capture_args=[])
        def f_cap0(self, *a, **k):
            return KeyOp.next()

        @tr.intercept_input('kr_{id}', alias_params_resolver=lambda self, *a, **k: {'id': self.ident})
        def f_res(self, *a, **k):
            return KeyOp.next()

        @tr.intercept_input('kf_{id}', alias_params_resolver=lambda self, *a, **k: {'id': self.ident}, fallback_aliases=['kf_never', 'kf_{id}'])
        def f_fbres(self, *a, **k):
            return KeyOp.next()

    KeyOp.counter = [0]

    def nxt():
        KeyOp.counter[0] += 1
        return ['unique', KeyOp.counter[0]]
    KeyOp.next = staticmethod(nxt)
    KeyOp.__module__ = __name__
    KeyOp.__qualname__ = 'KeyOp'
    setattr(sys.modules[__name__], 'KeyOp', KeyOp)
    return KeyOp


FALLBACK_PHASE = ['record']


def plan_for(cfg, U, rev=False, variant=0):
    """list of (fn, args, kwargs, ident); identity of a call = its index. variant != 0 changes only what must NOT matter."""
    plan = []
    small = [u for u in U if u[0] in ('atom', 'bytes')] + [u for u in U if u[0] != 'atom' and len(u[1]) <= 1][:24]
    for i, u in enumerate(U):
        if cfg == 'inst':
            plan.append(('f_inst', [build(u, rev)], {}, 'A'))
        elif cfg == 'static':
            plan.append(('f_static', [build(u, rev)], {}, 'A'))
        elif cfg == 'kw':
            plan.append(('f_inst', [], {'x': build(u, rev)}, 'A'))
        elif cfg == 'cap-pos':
            excluded = ['noise', variant, i] if variant else None
            plan.append(('f_cap', [build(u, rev), excluded], {'z': variant} if variant else {}, 'A'))
        elif cfg == 'cap-name':
            plan.append(('f_capname', [['noise', variant]] if variant else [None], {'x': build(u, rev)}, 'A'))
        elif cfg == 'two-aliases':
            plan.append(('f_inst' if i % 2 == 0 else 'f_inst2', [build(U[i - (i % 2)], rev)], {}, 'A'))
    if cfg == 'two':
        for a in small:
            plan.append(('f_inst', [build(a, rev)], {}, 'A'))
            plan.append(('f_inst', [[build(a, rev)]], {}, 'A'))
            plan.append(('f_inst', [(build(a, rev),)], {}, 'A'))
            plan.append(('f_inst', [], {'x': build(a, rev)}, 'A'))
            plan.append(('f_inst', [], {'y': build(a, rev)}, 'A'))
        for a, b in itertools.product(small[:14], repeat=2):
            plan.append(('f_inst', [build(a, rev), build(b, rev)], {}, 'A'))
            plan.append(('f_inst', [(build(a, rev), build(b, rev))], {}, 'A'))
            plan.append(('f_inst', [build(a, rev)], {'x': build(b, rev)}, 'A'))
            plan.append(('f_inst', [], {'x': build(a, rev), 'y': build(b, rev)}, 'A'))
    if cfg == 'cap-none':
        for i, u in enumerate(U[:40]):
            plan.append(('f_cap0', [build(u, rev), variant], {'z': i}, 'A'))
    if cfg == 'resolver':
        for ident in ('A', 'B', 'A B', 'a', ''):
            plan.append(('f_res', [], {}, ident))   # same instance, only the state read by the resolver changes
            for u in small[:12]:
                plan.append(('f_res', [build(u, rev)], {}, ident))
        for ident in ('A', 'C', 'B'):
            plan.append(('f_res', [], {}, ident))
    if cfg == 'cap-static':
        for a, b in itertools.product(small[:16], repeat=2):
            plan.append(('f_scap', [build(a, rev), ['excluded', variant], build(b, rev)], {}, 'A'))
        for a in small[:16]:
            plan.append(('f_scap', [build(a, rev)], {'z': build(a, rev), 'y': variant}, 'A'))
    if cfg == 'fallback':
        # recorded under the old alias; replayed through the renamed function that lists the old alias as fallback.
        # the argument texts contain the alias names themselves
        texts = ['knew', 'kold', 'input: knew', 'x knew y kold', 'kmissing', 'a', '']
        fn = 'f_old' if variant == 0 and not rev and FALLBACK_PHASE[0] == 'record' else 'f_new'
        for t in texts:
            plan.append((fn, [t], {}, 'A'))
            plan.append((fn, [[t, 'knew']], {'x': t}, 'A'))
    if cfg == 'fallback-resolver':
        # a resolved alias together with a declared fallback LIST; the replayed code makes calls whose resolved alias was never
        # recorded, between calls whose alias was: each is answered by its own identity only
        idents = ('A', 'B') if FALLBACK_PHASE[0] == 'record' and variant == 0 and not rev else ('A', 'C', 'B', 'D', 'A', 'never', '{id}')
        for ident in idents:
            plan.append(('f_fbres', [], {}, ident))
            for u in small[:6]:
                plan.append(('f_fbres', [build(u, rev)], {}, ident))
    if cfg == 'fallback-both':
        # the renamed function (own alias + the old alias as fallback) and another function that still uses the old alias are BOTH recorded
        # with equal arguments: each is answered by what was recorded for it
        for t in ['knew', 'kold', 'a', '']:
            plan.append(('f_new', [t], {}, 'A'))
            plan.append(('f_old', [t], {}, 'A'))
            plan.append(('f_new', [[t, 'kold']], {'x': t}, 'A'))
            plan.append(('f_old', [[t, 'kold']], {'x': t}, 'A'))
    if cfg == 'cap-two':
        for a, b in itertools.product(small[:16], repeat=2):
            plan.append(('f_cap2', [build(a, rev), build(b, rev), ['excluded', variant], build(a, rev)], {}, 'A'))
            plan.append(('f_cap2', [build(a, rev)], {'y': build(b, rev), 'w': build(b, rev), 'z': variant}, 'A'))
    return plan


def identity(cfg, call):
    """Reference identity of a call: resolved alias + captured argument values (type-aware, sets/dicts unordered)."""
    from mc.refeq import canon
    fn, args, kw, ident = call
    if fn == 'f_cap':
        cap = ('kw', canon(kw['x'])) if 'x' in kw else ('pos', canon(args[0]))
        return (fn, cap)
    if fn == 'f_cap2':
        return (fn, tuple(('kw', n, canon(kw[n])) if n in kw else ('pos', n, canon(args[p])) for p, n in ((0, 'x'), (1, 'y'), (3, 'w'))))
    if fn == 'f_scap':
        return (fn, tuple(('kw', n, canon(kw[n])) if n in kw else ('pos', n, canon(args[p])) for p, n in ((0, 'x'), (2, 'z'))))
    if fn in ('f_old', 'f_new') and cfg == 'fallback-both':
        return (fn, canon(list(args)), canon(kw))
    if fn in ('f_old', 'f_new'):
        return ('f_old/f_new', canon(list(args)), canon(kw))   # the renamed function answers from what was recorded under the old alias
    if fn == 'f_capname':
        return (fn, canon(kw.get('x', 'ABSENT')) if 'x' in kw else 'ABSENT')
    if fn == 'f_cap0':
        return (fn,)
    return (fn, ident if fn in ('f_res', 'f_fbres') else None, canon(list(args)), canon(kw))


def expected_for(cfg, plan_rec, plan_rep):
    """index of the recorded call whose value each replayed call must receive: the LAST recorded call with the same identity."""
    last = {}
    for i, c in enumerate(plan_rec):
        last[identity(cfg, c)] = i
    return [last.get(identity(cfg, c)) for c in plan_rep]


def record_into(directory, cfg, tier):
    import logging
    logging.disable(logging.CRITICAL)
    from playback.tape_recorder import TapeRecorder
    from playback.tape_cassettes.file_based.file_based_tape_cassette import FileBasedTapeCassette
    cas = FileBasedTapeCassette(directory)
    tr = TapeRecorder(cas)
    tr.enable_recording()
    K = make_ops(tr)
    U = universe(tier)
    plan = plan_for(cfg, U)
    FALLBACK_PHASE[0] = 'record'
    plan = plan_for(cfg, U)
    K('rec').execute(plan)
    FALLBACK_PHASE[0] = 'replay'
    files = [f for f in os.listdir(directory)]
    rid = files[0].split('.')[0] if files else None   # (None: the recorder did not keep the run - a key could not be built)
    return rid, K.results, plan


def replay_from(directory, rid, cfg, tier, rev, variant, tag):
    import logging
    logging.disable(logging.CRITICAL)
    from playback.tape_recorder import TapeRecorder
    from playback.tape_cassettes.file_based.file_based_tape_cassette import FileBasedTapeCassette
    cas = FileBasedTapeCassette(directory)
    tr = TapeRecorder(cas)
    K = make_ops(tr)
    U = universe(tier)
    FALLBACK_PHASE[0] = 'replay'
    plan = plan_for(cfg, U, rev=rev, variant=variant)
    rec = cas.get_recording(rid)
    tr.play(rec.id, lambda recording: K(tag).execute(plan))
    return K.results, plan


def spec_of_call(cfg, U, idx, plan_len):
    """the universe specs involved in call idx (for signatures); best effort."""
    if cfg == 'two-aliases' and idx < len(U):
        return [U[idx - (idx % 2)]]
    if cfg in ('inst', 'static', 'kw', 'cap-pos', 'cap-name') and idx < len(U):
        return [U[idx]]
    return []


def judge(cfg, tier, recorded, replayed, label, plan_rec, plan_rep):
    viols = []
    U = universe(tier)
    exp_idx = expected_for(cfg, plan_rec, plan_rep)
    bad = []
    for i, got in enumerate(replayed):
        exp = recorded[exp_idx[i]] if exp_idx[i] is not None else ('EXC', 'RecordingKeyError')
        if got != exp:
            bad.append((i, exp, got))
    for i, exp, got in bad[:400]:
        specs = spec_of_call(cfg, U, i, len(recorded))
        big = any(has_big_set(s) for s in specs)
        if isinstance(got, tuple) and got[:1] == ('EXC',):
            kind = 'unstable-key' if got[1] == 'RecordingKeyError' else 'raised-' + got[1]
        else:
            kind = 'foreign-value'
        sig = '%s:%s' % (kind, 'set-with-2+-elements' if big else cfg)
        viols.append(viol(sig, '%s: call #%d of configuration %s (%s) must receive the value recorded for it' % (label, i, cfg, json.dumps(specs)[:200]), exp, got))
    uniq = {}
    for v in viols:
        uniq.setdefault(v['sig'], v)
    return list(uniq.values()), len(bad)


def run_case(case):
    cfg, tier = case['cfg'], case['tier']
    d = tempfile.mkdtemp(prefix='mc_c06_')
    try:
        rid, recorded, plan_rec = record_into(d, cfg, tier)
        if rid is None:
            return dict(viol=[viol('not-recorded:%s' % cfg, 'a run whose arguments are all inside the domain was not kept by the recorder (configuration %s): a key could not be built' % cfg,
                                   'one saved recording', 'nothing saved')], obs=repr((cfg, 'not recorded')), nontrivial=True)
        viols = []
        nbad = 0
        cross = 0
        n = len(recorded)
        labels = []
        for rev, variant, tag, label in ((False, 0, 'same', 'same process, same order'), (True, 0, 'other', 'same process, reversed insertion order, other instance'),
                                         (False, 7, 'var', 'same process, other excluded arguments'), (True, 9, 'var2', 'reversed order + other excluded arguments')):
            if variant and cfg not in ('cap-pos', 'cap-name', 'cap-none', 'cap-two', 'cap-static'):
                continue
            replayed, plan_rep = replay_from(d, rid, cfg, tier, rev, variant, tag)
            v, b = judge(cfg, tier, recorded, replayed, label, plan_rec, plan_rep)
            viols += v
            nbad += b
            labels.append(label)
        # child processes with other hash seeds (string hashing differs => set / dict iteration order differs)
        for hs in (1, 2, 3):
            env = dict(os.environ, PYTHONHASHSEED=str(hs))
            out = subprocess.run([sys.executable, '-c', 'from mc.checks import c06; c06.child_main()', d, rid, cfg, tier], capture_output=True, text=True, env=env,
                                 cwd=os.path.dirname(os.path.dirname(os.path.dirname(os.path.abspath(__file__)))))
            if out.returncode != 0:
                from mc.core import HarnessError
                raise HarnessError('child replay failed: %s' % out.stderr[-800:])
            replayed = [tuple(x) if isinstance(x, list) and x[:1] == ['EXC'] else x for x in json.loads(out.stdout.strip().splitlines()[-1])]
            FALLBACK_PHASE[0] = 'replay'
            v, b = judge(cfg, tier, recorded, replayed, 'child process PYTHONHASHSEED=%d' % hs, plan_rec, plan_for(cfg, universe(tier), rev=True))
            viols += v
            nbad += b
        # a process that loaded only the recorder and the in-memory cassette (none of the other cassette modules): same keys
        if cfg in ('inst', 'static', 'kw', 'cap-pos', 'resolver', 'cap-two'):
            from playback.tape_cassettes.file_based.file_based_tape_cassette import FileBasedTapeCassette
            here = sorted(FileBasedTapeCassette(d).get_recording(rid).get_all_keys())
            out = subprocess.run([sys.executable, '-c', 'from mc.checks import c06; c06.child_keys_main()', cfg, tier], capture_output=True, text=True,
                                 env=dict(os.environ, PYTHONHASHSEED='0'), cwd=os.path.dirname(os.path.dirname(os.path.dirname(os.path.abspath(__file__)))))
            if out.returncode != 0:
                from mc.core import HarnessError
                raise HarnessError('child key dump failed: %s' % out.stderr[-800:])
            res = json.loads(out.stdout.strip().splitlines()[-1])
            if os.environ.get('PYTHONHASHSEED') == '0' and res['minimal_imports']:
                cross = 1
                there = sorted(res['keys'])
                if there != here:
                    diff = [k for k in there if k not in set(here)][:2] + [k for k in here if k not in set(there)][:2]
                    viols.append(viol('unstable-key:other-modules-loaded:%s' % cfg, 'the same calls get other keys in a process that loaded only the recorder and the in-memory cassette than in one that '
                                      'also loaded the file cassette (configuration %s)' % cfg, 'same key set', [x[:160] for x in diff]))
                    nbad += 1
        uniq = {}
        for v in viols:
            uniq.setdefault(v['sig'], v)
        return dict(viol=list(uniq.values()), obs=repr((cfg, n, nbad)), nontrivial=n >= 2, evals=n * (len(labels) + 4), transitions=n * (len(labels) + 4),
                    extra={'calls_recorded': n, 'key_sets_compared_with_minimal_import_process': cross})
    finally:
        shutil.rmtree(d, ignore_errors=True)


def child_keys_main():
    # child process that imports as little of the library as possible: records the plan in memory and prints the keys
    from mc import core
    core.bind_repo()
    import logging
    logging.disable(logging.CRITICAL)
    cfg, tier = sys.argv[1:3]
    from playback.tape_recorder import TapeRecorder
    from playback.tape_cassettes.in_memory.in_memory_tape_cassette import InMemoryTapeCassette
    cas = InMemoryTapeCassette()
    tr = TapeRecorder(cas)
    tr.enable_recording()
    K = make_ops(tr)
    FALLBACK_PHASE[0] = 'record'
    K('rec').execute(plan_for(cfg, universe(tier)))
    rid = list(cas.iter_recording_ids('KeyOp'))[0]
    minimal = not any(m.startswith('playback.tape_cassettes.') and 'in_memory' not in m and sys.modules[m] is not None for m in list(sys.modules))
    print(json.dumps({'keys': sorted(cas.get_recording(rid).get_all_keys()), 'minimal_imports': minimal}))


def child_main():
    # child process: replay and print what every call received
    from mc import core
    core.bind_repo()
    d, rid, cfg, tier = sys.argv[1:5]
    res, _ = replay_from(d, rid, cfg, tier, True, 0, 'child')
    print(json.dumps(res, default=repr))
