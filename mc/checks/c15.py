"""C15 - S3 cassette writes are confined: read-only, own prefix, complete-before-visible (histories + crash points)."""
from __future__ import annotations

import itertools

from mc import fakes3
from mc.core import viol

ID = 'C15'
LEVEL = 'model_checking'
RULE = ('cassette A in every combination of read_only x transient x key prefix {none, a, ab, a/b} and a second writable cassette B on a '
        'neighbouring prefix share one fake bucket pre-loaded with recordings of all four prefixes and foreign objects (also directly under '
        'A\'s root); every call history up to the depth bound over {A: create, save new, save again (modified), get, get metadata, list, fetch of half-present recordings, '
        'close, with-exit; B: save new, close}; calls that raise are continued past; after EVERY bucket mutation of EVERY save (crash '
        'points) every id any view can list must be completely fetchable. states = distinct bucket key sets. Non-trivial = history with a '
        'mutation attempt.')
ASSUMPTIONS = ['fake bucket: strongly consistent, single object put/delete atomic, lexicographic listing', 'python -O (assert stripping) not considered',
               'key prefixes literally named full / metadata are outside the alphabet', 'completeness at crash points is claimed for saves only, not for the clean-up of a transient close']
import re
_HEX = re.compile(r'[0-9a-f]{32}')
ROOT = 'tape_recorder_recordings/'
PREFIXES = ['', 'a', 'ab', 'a/b']
LETTERS = ['A.create', 'A.save', 'A.resave', 'A.get', 'A.meta', 'A.list', 'A.close', 'A.with', 'B.save', 'B.close', 'A.saveagain', 'A.withraise', 'A.metaorphan', 'A.getdangling']


def bounds(tier):
    return {'configs_A': 16, 'configs_B': 2, 'letters': len(LETTERS), 'history_depth': 3 if tier == 'quick' else 4, 'crash_points_per_save': 'every prefix of its mutation log'}


def gen_cases(tier, seed):
    depth = 3 if tier == 'quick' else 4
    for ro, tr, pi in itertools.product((True, False), (False, True), range(4)):
        for btr in (False, True):
            for n in range(1, depth + 1):
                for h in itertools.product(range(len(LETTERS)), repeat=n):
                    if n > 1 and all(LETTERS[i] in ('A.get', 'A.meta', 'A.list', 'A.metaorphan', 'A.getdangling') for i in h):
                        continue
                    if n == depth and not any(LETTERS[i] in ('A.save', 'A.resave', 'A.close', 'A.with', 'B.close') for i in h):
                        continue
                    yield {'ro': ro, 'tr': tr, 'p': pi, 'btr': btr, 'h': list(h)}
                    if n <= 2 and not ro and any(LETTERS[i] in ('A.save', 'A.resave') for i in h):
                        yield {'ro': ro, 'tr': tr, 'p': pi, 'btr': btr, 'h': list(h), 'cat': '/api/v1'}   # a category that looks like an absolute path
                        for k in (1, 2, 3, 4):   # the k-th put request of A is rejected by the bucket (the save fails half way)
                            yield {'ro': ro, 'tr': tr, 'p': pi, 'btr': btr, 'h': list(h), 'fail_put': k}
        if not ro and tr:
            yield {'ro': ro, 'tr': tr, 'p': pi, 'btr': False, 'h': [LETTERS.index('A.close')], 'many': 1001}   # more recordings than one listing / delete page


def own_roots(prefix):
    kp = (prefix + '/') if prefix else ''
    return (ROOT + kp + 'full/', ROOT + kp + 'metadata/')


def owns(prefix, key):
    return any(key.startswith(r) for r in own_roots(prefix))


def mk(prefix, **kw):
    from playback.tape_cassettes.s3.s3_tape_cassette import S3TapeCassette
    return S3TapeCassette('bucket', key_prefix=prefix, **kw)


def views_ok(objs, label, viols, cats=('Op',)):
    """At this bucket state every id that any prefix view can list is completely fetchable."""
    saved = fakes3.FAKE.store
    tmp = fakes3.Store()
    tmp.objs = dict(objs)
    fakes3.FAKE.store = tmp
    try:
        for p in PREFIXES:
            v = mk(p, read_only=True)
            try:
                ids = []
                for cat_ in sorted(set(cats)):
                    ids += list(v.iter_recording_ids(cat_))
            except Exception as e:
                viols.append(viol('crash-point:listing-raised:%s' % type(e).__name__, '%s: listing of prefix %r raised' % (label, p), 'ids', repr(e)))
                continue
            for rid in ids:
                try:
                    r = v.get_recording(rid)
                    m = v.get_recording_metadata(rid)
                    if r.id != rid or not isinstance(m, dict) or 'k' not in r.get_all_keys():
                        raise ValueError('incomplete content')
                except Exception as e:
                    viols.append(viol('crash-point:discoverable-but-not-fetchable', '%s: id %s listed by the view of prefix %r cannot be completely fetched' % (label, rid, p),
                                      'complete recording + metadata', repr(e)))
                    return
    finally:
        fakes3.FAKE.store = saved


def run_case(case):
    fakes3.install()
    st = fakes3.new_store()
    prefix = PREFIXES[case['p']]
    bprefix = {'': 'a', 'a': 'ab', 'ab': 'a', 'a/b': 'a'}[prefix]
    # pre-load: recordings of all four prefixes + foreign objects
    st.actor = 'setup'
    for p in PREFIXES:
        c = mk(p, read_only=False)
        for i in range(2):
            r = c.create_new_recording('Op')
            r.set_data('k', [p, i])
            r.add_metadata({'owner': p})
            c.save_recording(r)
    cl = fakes3.FAKE.client('s3')
    kp = (prefix + '/') if prefix else ''
    # a recording whose writer died between the two puts of its save: full object present, metadata object missing
    import zlib
    orphan = 'Op/20200101/%032x' % 0xdead
    st.objs[own_roots(prefix)[0] + orphan] = (zlib.compress(b'{"k": ["orphan"], "_metadata": {"owner": "crashed"}}'), st.clock(), {})
    # ... and one whose full object is gone while its metadata object is still there (e.g. an interrupted clean-up), in a category of its own
    dangling = 'Dangling/20200101/%032x' % 0xbeef
    st.objs[own_roots(prefix)[1] + dangling] = (b'{"owner": "half-removed"}', st.clock(), {})
    for key in ('unrelated/x', ROOT + 'NOTES.txt', ROOT + kp + 'NOTES.txt', ROOT + kp + 'fullish/x', ROOT + kp + 'metadata_backup/x', 'tape_recorder_recordingsX/full/y'):
        cl.put_object('bucket', key, b'foreign ' + key.encode())
    cat = case.get('cat', 'Op')
    if case.get('many'):   # the cassette owns more recordings than S3 returns / deletes per request
        import zlib
        now = st.clock()
        for i in range(case['many']):
            rid = 'Op/20200101/%032x' % i
            st.objs[own_roots(prefix)[0] + rid] = (zlib.compress(b'{"k": 1}'), now, {})
            st.objs[own_roots(prefix)[1] + rid] = (b'{}', now, {})
    puts = {'n': 0}

    def put_hook(key):
        if st.actor == 'A':
            puts['n'] += 1
            if puts['n'] == case.get('fail_put'):
                raise IOError('bucket rejects this put by design')
    st.put_hook = put_hook if case.get('fail_put') else None
    base_log = len(st.log)
    pristine = st.snapshot()
    A = mk(prefix, read_only=case['ro'], transient=case['tr'])
    B = mk(bprefix, read_only=False, transient=case['btr'])
    viols = []
    state = {'A': {'cur': None, 'saved': []}, 'B': {'cur': None, 'saved': []}}
    states = []
    attempted = False
    for step, li in enumerate(case['h']):
        actor, op = LETTERS[li].split('.')
        c = A if actor == 'A' else B
        s = state[actor]
        st.actor = actor
        l0 = len(st.log)
        before = st.snapshot()
        raised = None
        try:
            if op == 'create':
                s['cur'] = c.create_new_recording(cat if actor == 'A' else 'Op')
                s['cur'].set_data('k', ['new', step])
                s['cur'].add_metadata({'v': 1})
            elif op in ('save', 'resave'):
                attempted = True
                if op == 'resave' and s['saved']:
                    from playback.recordings.memory.memory_recording import MemoryRecording
                    r = MemoryRecording(s['saved'][-1])
                    r.set_data('k', ['again', step])
                    r.add_metadata({'v': 2})
                else:
                    r = s['cur'] or _fresh(c, step, cat if actor == 'A' else 'Op')
                    s['cur'] = None
                c.save_recording(r)
                s['saved'].append(r.id)
                s['last_obj'] = r
            elif op == 'get':
                ids = list(c.iter_recording_ids('Op'))
                if ids:
                    c.get_recording(ids[0])
            elif op == 'meta':
                ids = list(c.iter_recording_ids('Op'))
                if ids:
                    c.get_recording_metadata(ids[-1])
            elif op == 'list':
                list(c.iter_recording_ids('Op', limit=2))
                list(c.iter_recording_ids('Op', random_results=True))
            elif op == 'saveagain':   # the very same recording object is saved once more, unchanged
                attempted = True
                if s.get('last_obj') is not None:
                    c.save_recording(s['last_obj'])
            elif op == 'metaorphan':
                from playback.exceptions import NoSuchRecording
                try:
                    c.get_recording_metadata(orphan)
                except NoSuchRecording:
                    pass
            elif op == 'getdangling':
                from playback.exceptions import NoSuchRecording
                try:
                    c.get_recording(dangling)
                except NoSuchRecording:
                    pass
            elif op == 'withraise':
                attempted = True
                try:
                    with c:
                        raise KeyError('the block fails')
                except KeyError:
                    pass
            elif op == 'close':
                attempted = True
                c.close()
            elif op == 'with':
                attempted = True
                with c:
                    pass
        except AssertionError as e:
            raised = e
        except IOError as e:
            raised = e   # the injected bucket failure surfaces to the caller of save: allowed; what matters is the bucket state
        except Exception as e:
            raised = e
            viols.append(viol('call-raised:%s:%s' % (op, type(e).__name__), 'call %s raised something else than the read-only assertion' % LETTERS[li], 'ok / AssertionError', repr(e)))
        muts = st.log[l0:]
        cfg = ('A', case['ro'], case['tr'], prefix) if actor == 'A' else ('B', False, case['btr'], bprefix)
        _, ro, tr, pfx = cfg
        # (i) read-only never mutates, create/save are refused
        if ro and muts:
            viols.append(viol('read-only:mutated:%s' % op, 'a read-only cassette changed the bucket during %s' % op, [], muts))
        if ro and op in ('create', 'save', 'resave') and raised is None:
            viols.append(viol('read-only:%s-not-refused' % op, 'a read-only cassette accepted %s' % op, 'AssertionError', 'no error'))
        # (ii) own prefix only
        for kind, key, _a in muts:
            if not owns(pfx, key):
                viols.append(viol('outside-own-prefix:%s:%s' % (op, kind), '%s of prefix %r %s key %r outside its own roots %s' % (op, pfx, kind, key, own_roots(pfx)), own_roots(pfx), key))
                break
        if op in ('close', 'with', 'withraise') and raised is None:
            after = st.snapshot()
            if (not ro) and tr:
                left = [k for k in after if owns(pfx, k)]
                if left:
                    viols.append(viol('transient-close:own-recordings-left', 'closing a transient writable cassette must remove all of its own recordings', [], left[:4]))
                others_before = {k: v[0] for k, v in before.items() if not owns(pfx, k)}
                others_after = {k: v[0] for k, v in after.items() if not owns(pfx, k)}
                if others_before != others_after:
                    gone = sorted(set(others_before) - set(others_after))
                    viols.append(viol('transient-close:foreign-objects-touched', 'closing a transient cassette of prefix %r changed objects that are not its own' % pfx, 'untouched', gone[:4]))
            elif muts:
                viols.append(viol('close:mutated', 'closing a %s cassette must not change the bucket' % ('read-only' if ro else 'non-transient'), [], muts))
        # (iii) crash points of a save: after each individual mutation everything discoverable is fetchable
        if op == 'saveagain' and raised is None:
            views_ok(st.snapshot(), 'after saving the same recording object again (%s)' % LETTERS[li], viols, cats=('Op', cat))
        if op in ('save', 'resave') and isinstance(raised, IOError):
            views_ok(st.snapshot(), 'after a save whose put #%s was rejected (%s)' % (case.get('fail_put'), LETTERS[li]), viols, cats=('Op', cat))
        if op in ('save', 'resave') and muts:
            for j in range(l0, len(st.log)):
                objs_after_j = st.snaps[j + 1] if j + 1 < len(st.snaps) else st.snapshot()
                views_ok(objs_after_j, 'crash after mutation %d/%d of %s (%s %s)' % (j - l0 + 1, len(muts), LETTERS[li], st.log[j][0], st.log[j][1]), viols, cats=('Op', cat))
        states.append(repr(sorted(_HEX.sub('U', k) for k in st.objs)))
    uniq = {}
    for v in viols:
        uniq.setdefault(v['sig'], v)
    return dict(viol=list(uniq.values()), obs=repr((case['ro'], case['tr'], prefix, len(st.log) - base_log)), states=states, nontrivial=attempted,
                transitions=len(case['h']), evals=len(case['h']))


def _fresh(c, step, cat='Op'):
    r = c.create_new_recording(cat)
    r.set_data('k', ['direct', step])
    r.add_metadata({'v': 0})
    return r
