"""C16 - S3 time-window lookup is exact (exhaustive grid of windows x recordings around day boundaries)."""
from __future__ import annotations

import datetime

import pytz

from mc import fakes3
from mc.core import viol

ID = 'C16'
LEVEL = 'exploration'
RULE = ('30-minute grid over 3 days (144 instants; thorough adds a 1-minute grid +-3 minutes around each midnight); 16 recordings created '
        'and saved at instants chosen to hit day boundaries (00:00, 00:30, 12:00, 23:30 of each day) in two categories, by ONE writer '
        'cassette that stays open across the midnights, with recording ids whose key order is not chronological; ALL windows (start <= '
        'end) of the grid, start > end, end defaulting to now (bucket restricted to recordings <= now), with and without metadata filter '
        'and limit; long windows: all pairs of 32 instants from Oct 2019 to Jan 2021 (month ends, year ends, leap day), one recording per marked day. Non-trivial = window whose reference answer is a proper non-empty subset.')
ASSUMPTIONS = ['process clock in UTC (as the property states); harness clock replaces datetime in s3_tape_cassette and stamps last_modified in the fake bucket',
               'recordings are created and saved at the same instant']
D0 = datetime.datetime(2020, 3, 1)
REC_MIN = [0, 30, 12 * 60, 23 * 60 + 30, 24 * 60, 24 * 60 + 30, 36 * 60, 47 * 60 + 30, 48 * 60, 48 * 60 + 30, 60 * 60, 71 * 60 + 30]
REC = [(m, 'Op', {'m': 1 + (i % 2)}) for i, m in enumerate(REC_MIN)] + [(24 * 60, 'OpB', {'m': 1}), (23 * 60 + 30, 'OpB', {'m': 2}),
                                                                      (47 * 60 + 59, 'Op', {'m': 1}), (48 * 60 + 1, 'OpB', {'m': 1})]


def grid(tier):
    g = [i * 30 for i in range(144)]
    if tier == 'thorough':
        for d in (1, 2):
            g += [d * 1440 + k for k in range(-3, 4)]
    return sorted(set(g))


def bounds(tier):
    return {'grid_instants': len(grid(tier)), 'recordings': len(REC), 'windows': 'all start<=end pairs + start>end + end=None', 'categories': 2}


def gen_cases(tier, seed):
    g = grid(tier)
    for i in range(len(g)):
        yield {'k': 'window', 'start': g[i], 'tier': tier}
        if i % 12 == 5:   # the same lookups in a process whose local time zone is far from UTC (arguments stay naive UTC)
            yield {'k': 'window', 'start': g[i], 'tier': tier, 'tz': 'Asia/Tokyo'}
            yield {'k': 'window', 'start': g[i], 'tier': tier, 'tz': 'America/Los_Angeles'}
    yield {'k': 'biglimit', 'tier': tier}
    for now in sorted(set(REC_MIN + [g[-1], 24 * 60 + 1, 47 * 60 + 59])):
        yield {'k': 'now', 'now': now, 'tier': tier}
    # two lookups with different windows on ONE cassette object, consumed interleaved (lookups are lazy iterators)
    marks = [0, 12 * 60, 23 * 60 + 30, 24 * 60, 24 * 60 + 30, 36 * 60, 47 * 60 + 30, 48 * 60, 60 * 60, 71 * 60 + 30]
    for i, s1 in enumerate(marks):
        yield {'k': 'interleaved', 's1': s1, 'marks': marks, 'tier': tier}
    # one long-lived cassette: the same open-ended lookup repeated while the clock moves on and recordings keep arriving
    for s0 in (0, 12 * 60, 23 * 60 + 30, 24 * 60):
        yield {'k': 'repeat', 'start': s0, 'tier': tier}
    # long windows: weeks to months, across month ends, a year end and a leap day
    for i in range(len(long_instants())):
        yield {'k': 'long', 'start': i, 'tier': tier}
        if i % 4 == 0:   # a category whose text contains date-format / string-format metacharacters
            yield {'k': 'long', 'start': i, 'tier': tier, 'cat': 'p95%Hourly %M {0} report'}


LONG_DAYS = [(2019, 10, 31), (2019, 11, 1), (2019, 11, 15), (2019, 11, 30), (2019, 12, 1), (2019, 12, 15), (2019, 12, 31), (2020, 1, 1), (2020, 1, 15),
             (2020, 1, 31), (2020, 2, 1), (2020, 2, 28), (2020, 2, 29), (2020, 3, 1), (2020, 12, 31), (2021, 1, 1)]


def long_instants():
    out = []
    for d in LONG_DAYS:
        out += [datetime.datetime(*d), datetime.datetime(*d) + datetime.timedelta(hours=18)]
    return out


def _long(case, viols):
    from playback.tape_cassettes.s3.s3_tape_cassette import S3TapeCassette
    fakes3.new_store(lambda: pytz.utc.localize(_clock[0]))
    w = S3TapeCassette('bucket', key_prefix='p', read_only=False)
    recs = []
    cat = case.get('cat', 'Op')
    for d in LONG_DAYS:
        t = datetime.datetime(*d) + datetime.timedelta(hours=12)
        _clock[0] = t
        r = w.create_new_recording(cat)
        r.set_data('k', 1)
        w.save_recording(r)
        recs.append((r.id, t))
    _clock[0] = datetime.datetime(2021, 2, 1)
    reader = S3TapeCassette('bucket', key_prefix='p', read_only=True)
    inst = long_instants()
    sd = inst[case['start']]
    n = nt = 0
    for ed in inst[case['start']:]:
        n += 1
        ref = sorted(t.isoformat() for rid, t in recs if sd <= t <= ed)
        times = {rid: t for rid, t in recs}
        try:
            ids = list(reader.iter_recording_ids(cat, start_date=sd, end_date=ed))
            got = sorted(times[x].isoformat() if x in times else 'unknown:' + x for x in ids)
        except Exception as ex:
            viols.append(viol('long:raised:%s' % type(ex).__name__, 'window [%s, %s] raised' % (sd, ed), ref, repr(ex)))
            continue
        if got != ref:
            span = 'one-month' if (sd.year, sd.month) == (ed.year, ed.month) else 'adjacent-months' if (ed.year * 12 + ed.month) - (sd.year * 12 + sd.month) == 1 else 'several-months'
            kind = 'duplicates' if len(set(got)) != len(got) else 'outside-window' if set(got) - set(ref) else 'missed'
            viols.append(viol('long:%s:%s%s' % (kind, span, ':across-new-year' if sd.year != ed.year else ''), 'long window [%s, %s]' % (sd, ed), ref, got))
        elif 0 < len(ref) < len(recs):
            nt += 1
    return n, nt


_clock = [D0]


def _install():
    fakes3.install()
    fakes3.install_s3_clock(lambda: _clock[0])
    import playback.tape_cassettes.s3.s3_tape_cassette as S

    class FakeUuidMod(object):
        n = [0]

        class _U(object):
            def __init__(self, h):
                self.hex = h

        @classmethod
        def uuid1(cls):
            cls.n[0] += 1
            return cls._U('%032x' % ((cls.n[0] * 7919) % 1009))   # key order is NOT chronological
    import uuid as _real_uuid
    names = [n for n, v in vars(S).items() if v is _real_uuid or n == 'uuid' or v is FakeUuidMod or getattr(v, '__name__', None) == 'FakeUuidMod']
    for n in names:
        setattr(S, n, FakeUuidMod)
    for n, v in list(vars(S).items()):   # the generator functions imported by name
        if v is _real_uuid.uuid1 or v is _real_uuid.uuid4 or getattr(v, '_mc_fake_uuid', False):
            f = lambda *a, **k: FakeUuidMod.uuid1()
            f._mc_fake_uuid = True
            setattr(S, n, f)
            names.append(n)
    FakeUuidMod.n[0] = 0
    return names


def build_bucket(upto=None):
    from playback.tape_cassettes.s3.s3_tape_cassette import S3TapeCassette
    st = fakes3.new_store(lambda: pytz.utc.localize(_clock[0]))
    _clock[0] = D0
    w = S3TapeCassette('bucket', key_prefix='p', read_only=False)   # ONE writer, open across the midnights
    recs = []
    for m, cat, md in sorted(REC, key=lambda r: r[0]):
        if upto is not None and m > upto:
            continue
        _clock[0] = D0 + datetime.timedelta(minutes=m)
        r = w.create_new_recording(cat)
        r.set_data('k', m)
        r.add_metadata(dict(md))
        w.save_recording(r)
        recs.append((r.id, m, cat, md))
    return recs


def run_case(case):
    import os
    import time as _time
    old_tz = os.environ.get('TZ')
    if case.get('tz'):
        os.environ['TZ'] = case['tz']
        _time.tzset()
    try:
        return _run_case(case)
    finally:
        if case.get('tz'):
            if old_tz is None:
                os.environ.pop('TZ', None)
            else:
                os.environ['TZ'] = old_tz
            _time.tzset()


def _biglimit(viols):
    """Limits above the small numbers: 300 recordings on each of two days of the window."""
    from playback.tape_cassettes.s3.s3_tape_cassette import S3TapeCassette
    fakes3.new_store(lambda: pytz.utc.localize(_clock[0]))
    w = S3TapeCassette('bucket', key_prefix='p', read_only=False)
    total = 0
    for day in (0, 1):
        for i in range(300):
            _clock[0] = D0 + datetime.timedelta(days=day, hours=6, seconds=i)
            r = w.create_new_recording('Op')
            r.set_data('k', i)
            w.save_recording(r)
            total += 1
    _clock[0] = D0 + datetime.timedelta(days=2)
    reader = S3TapeCassette('bucket', key_prefix='p', read_only=True)
    n = 0
    for limit in (256, 257, 300, 301, 599, 600, 1000):
        for rnd in (False, True):
            n += 1
            got = list(reader.iter_recording_ids('Op', start_date=D0, end_date=D0 + datetime.timedelta(days=2), limit=limit, random_results=rnd))
            if len(got) != min(limit, total) or len(set(got)) != len(got):
                viols.append(viol('limit-size:large', 'limit %d (random=%s) over %d matching recordings on two days' % (limit, rnd, total), min(limit, total), (len(got), len(set(got)))))
    return n, n


def _run_case(case):
    _install()
    from playback.tape_cassettes.s3.s3_tape_cassette import S3TapeCassette
    viols = []
    n = 0
    nontrivial = 0
    g = grid(case['tier'])
    if case['k'] == 'window':
        recs = build_bucket()
        _clock[0] = D0 + datetime.timedelta(minutes=g[-1] + 60)
        reader = S3TapeCassette('bucket', key_prefix='p', read_only=True)
        s = case['start']
        ends = [e for e in g if e >= s] + [e for e in (s - 30, s - 1440) if e >= 0]
        for e in ends:
            for cat, flt, limit in (('Op', None, None), ('OpB', None, None), ('Op', {'m': 1}, None), ('Op', None, 2)):
                n += 1
                ok, nt = _one(viols, reader, recs, s, e, cat, flt, limit, 'explicit end')
                nontrivial += nt
    elif case['k'] == 'interleaved':
        recs = build_bucket()
        _clock[0] = D0 + datetime.timedelta(minutes=g[-1] + 60)
        reader = S3TapeCassette('bucket', key_prefix='p', read_only=True)
        s1 = case['s1']
        for e1 in [m for m in case['marks'] if m >= s1]:
            for s2 in case['marks']:
                for e2 in [m for m in case['marks'] if m >= s2][:3]:
                    n += 1
                    ref_a = [rid for rid, m, c, md in recs if c == 'Op' and s1 <= m <= e1]
                    ita = reader.iter_recording_ids('Op', start_date=D0 + datetime.timedelta(minutes=s1), end_date=D0 + datetime.timedelta(minutes=e1))
                    got_a = []
                    first = next(ita, None)
                    if first is not None:
                        got_a.append(first)
                    list(reader.iter_recording_ids('Op', start_date=D0 + datetime.timedelta(minutes=s2), end_date=D0 + datetime.timedelta(minutes=e2)))
                    got_a += list(ita)
                    if sorted(got_a) != sorted(ref_a):
                        times = {rid: m for rid, m, c, md in recs}
                        viols.append(viol('interleaved-lookups', 'window [%s, %s] consumed around another lookup [%s, %s] on the same cassette' % (_fmt(s1), _fmt(e1), _fmt(s2), _fmt(e2)),
                                          sorted(_fmt(times[r]) for r in ref_a), sorted(_fmt(times.get(r, -1)) for r in got_a)))
                    elif 0 < len(ref_a) < 13:
                        nontrivial += 1
    elif case['k'] == 'long':
        n, nontrivial = _long(case, viols)
    elif case['k'] == 'biglimit':
        n, nontrivial = _biglimit(viols)
    elif case['k'] == 'repeat':
        from playback.tape_cassettes.s3.s3_tape_cassette import S3TapeCassette as S3C
        import pytz
        st = fakes3.new_store(lambda: pytz.utc.localize(_clock[0]))
        _clock[0] = D0
        w = S3C('bucket', key_prefix='p', read_only=False)
        reader = S3C('bucket', key_prefix='p', read_only=True)   # created once, lives through all the lookups
        recs = []
        s = case['start']
        for m, cat, md in sorted(REC, key=lambda r: r[0]):
            _clock[0] = D0 + datetime.timedelta(minutes=m)
            r = w.create_new_recording(cat)
            r.set_data('k', m)
            r.add_metadata(dict(md))
            w.save_recording(r)
            recs.append((r.id, m, cat, md))
            if m >= s:
                n += 1
                ok, nt = _one(viols, reader, recs, s, None, 'Op', None, None, 'repeated open-ended lookup, now=%s' % _fmt(m))
                nontrivial += nt
    else:
        now = case['now']
        recs = build_bucket(upto=now)
        _clock[0] = D0 + datetime.timedelta(minutes=now)
        reader = S3TapeCassette('bucket', key_prefix='p', read_only=True)
        for s in [x for x in g if x <= now]:
            for cat, flt, limit in (('Op', None, None), ('OpB', None, None), ('Op', {'m': 2}, None), ('Op', None, 1)):
                n += 1
                ok, nt = _one(viols, reader, recs, s, None, cat, flt, limit, 'end defaulting to now=%s' % _fmt(now))
                nontrivial += nt
    uniq = {}
    for v in viols:
        uniq.setdefault(v['sig'], v)
    return dict(viol=list(uniq.values()), obs=repr((case.get('start'), case.get('now'), case.get('tz'), case.get('cat'), len(viols))), nontrivial=nontrivial > 0, evals=n, transitions=n)


def _fmt(m):
    return 'D%d %02d:%02d' % (m // 1440 + 1, (m % 1440) // 60, m % 60)


def _one(viols, reader, recs, s, e, cat, flt, limit, label):
    sd = D0 + datetime.timedelta(minutes=s)
    ed = D0 + datetime.timedelta(minutes=e) if e is not None else None
    ref = [rid for rid, m, c, md in recs if c == cat and m >= s and (e is None or m <= e) and (not flt or all(md.get(k) == v for k, v in flt.items()))]
    try:
        got = list(reader.iter_recording_ids(cat, start_date=sd, end_date=ed, metadata=flt, limit=limit))
    except Exception as ex:
        viols.append(viol('raised:%s' % type(ex).__name__, 'window [%s, %s] (%s) raised' % (_fmt(s), _fmt(e) if e is not None else 'now', label), sorted(ref), repr(ex)))
        return False, 0
    times = {rid: m for rid, m, c, md in recs}
    kind = None
    if len(set(got)) != len(got):
        kind = 'duplicates'
    elif not set(got) <= set(ref):
        kind = 'outside-window'
    elif limit is None and set(got) != set(ref):
        missed = sorted(set(ref) - set(got), key=lambda r: times[r])
        m0 = times[missed[0]]
        kind = 'missed:%s' % ('at-window-end' if e is not None and m0 == e else 'at-window-start' if m0 == s else 'last-day' if e is not None and m0 // 1440 == e // 1440 and m0 // 1440 != s // 1440
                              else 'inside')
    elif limit is not None and len(got) != min(limit, len(ref)):
        kind = 'limit-size'
    if kind:
        viols.append(viol(kind, 'window [%s, %s] (%s) category %s filter %s limit %s' % (_fmt(s), _fmt(e) if e is not None else 'now', label, cat, flt, limit),
                          sorted(_fmt(times[r]) for r in ref), sorted(_fmt(times.get(r, -1)) for r in got)))
        return False, 0
    return True, 1 if 0 < len(ref) < len([1 for r in recs if r[2] == cat]) else 0
