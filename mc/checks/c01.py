"""C01 - replay on unchanged code reproduces the recorded run (sequential programs x every cassette; threaded part: c01 'par' shapes)."""
from __future__ import annotations

import copy
import itertools

from mc import cassettes, progs as P
from mc.core import viol

ID = 'C01'
LEVEL = 'model_checking'
RULE = ('every program up to the length bound over the letter alphabet (7 input styles, 3 output styles, same alias with different '
        'arguments, nested interceptions, raising bodies, a joined worker thread), plus long-tail families (one alias 1..12 times, 12 '
        'outputs) and every value of the universe in one-interception programs; each recorded on the real recorder, saved, fetched by id '
        'from a FRESH cassette object of each type (memory, file, S3 on a fake bucket) and replayed; states = distinct observation '
        'vectors; non-trivial = at least one interception and a repeated alias or key.')
ASSUMPTIONS = ['values limited to the measured faithful domain of jsonpickle 0.9.3; exceptions compared by type',
               'S3 cassette runs on an in-memory fake bucket behind the real S3BasicFacade (strong consistency, lexicographic listing)',
               'same-alias outputs issued concurrently from two threads are excluded (their ordinal is schedule dependent by design)']

LETTERS = {
    'ia1': {'fn': 'in_a', 'a': ['x1']}, 'ia2': {'fn': 'in_a', 'a': ['x2']}, 'iakw': {'fn': 'in_a', 'k': {'x': 'xd'}},
    'ib1': {'fn': 'in_b', 'a': ['x1']}, 'is1': {'fn': 'in_static', 'a': ['xt']}, 'ip': {'fn': 'in_prop'},
    'irA': {'fn': 'in_res', 'ident': 'A', 'a': ['x1']}, 'irB': {'fn': 'in_res', 'ident': 'B', 'a': ['x1']},
    'ic': {'fn': 'in_cap', 'a': ['x1', 'x2']}, 'ic_': {'fn': 'in_cap', 'a': ['x1', 'xs']}, 'i0': {'fn': 'in_cap0', 'a': ['xs']},
    'ih': {'fn': 'in_hdl', 'a': ['xb']}, 'if': {'fn': 'in_fb', 'a': ['x1']},
    'oa': {'fn': 'out_a', 'a': ['x1']}, 'oakw': {'fn': 'out_a', 'a': ['xs'], 'k': {'z': 'xd'}}, 'ob': {'fn': 'out_b'},
    'os': {'fn': 'out_static', 'a': ['xl']}, 'oh': {'fn': 'out_hdl', 'a': ['x1']},
    'iaE': {'fn': 'in_a', 'a': ['xs'], 'exc': 'E1'}, 'oaE': {'fn': 'out_a', 'a': ['x2'], 'exc': 'E2'},
    'nest_io': {'fn': 'in_b', 'a': ['x2'], 'pre': [{'fn': 'out_a', 'a': ['x1']}, {'fn': 'in_a', 'a': ['x1']}]},
    'nest_oi': {'fn': 'out_b', 'a': ['x2'], 'pre': [{'fn': 'in_a', 'a': ['x1']}, {'fn': 'out_b', 'a': ['x1']}]},
    'ia_t2': {'fn': 'in_a', 'a': ['xt2']}, 'ia_l': {'fn': 'in_a', 'a': ['xl']},
    'thr_o': {'do': 'thr', 'steps': [{'fn': 'out_a', 'a': ['x2']}, {'fn': 'in_a', 'a': ['x1']}]},
}
QUICK = ['ia1', 'ia2', 'ib1', 'is1', 'ip', 'irA', 'irB', 'ic', 'ic_', 'ih', 'if', 'oa', 'oakw', 'os', 'oh', 'iaE', 'oaE', 'nest_io', 'thr_o', 'ia_t2', 'ia_l']
RET_CYCLE = ['vlst', 'vtup', 'vobj', 'vdct', 'vs', 'vb', 'v0', 'vset', 'vn', 'vsh', 'vq', 'vu']


def bounds(tier):
    return {'max_len': 2 if tier == 'quick' else 3, 'letters': len(QUICK) if tier == 'quick' else len(LETTERS),
            'cassettes': cassettes.KINDS, 'long_tail_calls': 12, 'values': len(P.VALS)}


def mkprog(names, end='ret', rot=0):
    steps = []
    i = rot
    for n in names:
        s = copy.deepcopy(LETTERS[n])
        for t in [s] + list(s.get('steps', [])) + list(s.get('pre', [])):
            if 'fn' in t and 'exc' not in t:
                t['ret'] = RET_CYCLE[i % len(RET_CYCLE)]
                i += 1
        steps.append(s)
    return {'steps': steps, 'end': end}


def heavy(case):
    return case.get('engine') == 'sched'


def gen_cases(tier, seed):
    from mc.checks import c01_threads
    for c in c01_threads.gen_cases(tier, seed):
        yield c
    letters = QUICK if tier == 'quick' else list(LETTERS)
    maxlen = 2 if tier == 'quick' else 3
    for kind in cassettes.KINDS:
        for n in range(0, maxlen + 1):
            for combo in itertools.product(letters, repeat=n):
                yield {'prog': mkprog(combo, rot=n), 'cas': kind}
        if tier == 'quick':  # a slice of depth 3: every letter after the two collision-prone prefixes
            for pre in (('ia1', 'oa'), ('oa', 'oa'), ('thr_o', 'oa'), ('nest_io', 'ia1')):
                for l in letters:
                    yield {'prog': mkprog(pre + (l,)), 'cas': kind}
        # the same replays on a recorder whose previous replays failed (escaping missing-key error, interrupt)
        for combo in itertools.product(['ia1', 'oa', 'os', 'ob', 'thr_o'], repeat=2):
            yield {'prog': mkprog(combo), 'cas': kind, 'after_failed_replay': True}
        # endings
        for l in letters:
            for end in ('raise:E1', 'raise:Unser'):
                yield {'prog': mkprog((l,), end), 'cas': kind}
        # whole value universe through one input, one output result, one output argument
        for v in sorted(P.VALS):
            if v == 'bad':
                continue
            yield {'prog': {'steps': [{'fn': 'in_a', 'a': ['x1'], 'ret': v}]}, 'cas': kind}
            yield {'prog': {'steps': [{'fn': 'out_a', 'a': [v], 'k': {'kw': v}, 'ret': v}]}, 'cas': kind}
            yield {'prog': {'steps': [{'fn': 'in_hdl', 'a': [v], 'ret': v}, {'fn': 'out_hdl', 'a': [v], 'ret': v}]}, 'cas': kind}
            yield {'prog': {'steps': [{'fn': 'in_a', 'a': [v], 'ret': 'u1'}, {'fn': 'in_a', 'a': ['x1'], 'ret': 'u2'}]}, 'cas': kind}
        # same alias, arguments that differ only by Python type: each call must get its own value back
        tw = ['xt2', 'xl', 'xset', 'xo1', 'xo2', 'x1', 'x1f', 'xtrue', 'xs', 'xb', 'xn']
        for a1, a2 in itertools.permutations(tw, 2):
            yield {'prog': {'steps': [{'fn': 'in_a', 'a': [a1], 'ret': 'u1'}, {'fn': 'in_a', 'a': [a2], 'ret': 'u2'}]}, 'cas': kind}
            if a1 < a2:
                yield {'prog': {'steps': [{'fn': 'in_static', 'k': {'p': a1}, 'ret': 'u1'}, {'fn': 'in_static', 'k': {'p': a2}, 'ret': 'u2'},
                                          {'fn': 'in_static', 'a': [a1], 'ret': 'u3'}]}, 'cas': kind}
        # copy-on-interception: the service mutates what it received after capture; the recording must hold the captured state
        for v in ('vlst', 'vdct', 'vset', 'vobj', 'vtl', 'vfl', 'vsh'):
            for fn in ('in_a', 'in_static', 'out_a', 'in_hdl'):
                yield {'prog': {'params': {'copy': True}, 'steps': [{'fn': fn, 'a': ['x1'], 'ret': v}, {'do': 'mut'}, {'fn': 'out_b', 'a': ['x2'], 'ret': 'v1'}]}, 'cas': kind}
        # the service re-uses / mutates an object after passing it to an intercepted output (recorded and playback outputs must agree)
        for v in ('vlst', 'vdct', 'vobj', 'vtl'):
            for copy_on in (False, True):
                for fn in ('out_a', 'out_static', 'out_hdl'):
                    yield {'prog': {'params': {'copy': copy_on}, 'steps': [{'fn': fn, 'a': [v], 'ret': 'v1'}, {'do': 'mutarg'}, {'fn': 'in_a', 'a': ['x1'], 'ret': 'vs'}]},
                           'cas': kind, 'no_ref_outputs': True}
        # long tails
        for fn in ('out_a', 'out_static', 'out_hdl'):
            for n in (9, 10, 11, 12):
                yield {'prog': mkprog(['oa' if fn == 'out_a' else 'os' if fn == 'out_static' else 'oh'] * n), 'cas': kind}
        yield {'prog': {'steps': [{'fn': 'in_a', 'a': [a], 'ret': r} for a, r in zip(['x1', 'x2', 'xs', 'xd', 'xt', 'xb', 'xn', 'xl'], RET_CYCLE)] * 2}, 'cas': kind}
        yield {'prog': mkprog(['oa', 'ob', 'os'] * 4 + ['ia1', 'ia2']), 'cas': kind}
        yield {'prog': mkprog(['thr_o', 'oa', 'thr_o', 'oa']), 'cas': kind}
        for k in ('inst', 'cls'):
            pr = mkprog(['ia1', 'oa', 'is1', 'os'])
            pr['kind'] = k
            yield {'prog': pr, 'cas': kind}


_UNFAITHFUL = None


def worker_init():
    global _UNFAITHFUL
    from playback.utils.pickle_copy import pickle_copy  # third-party round trip (jsonpickle) measured, not assumed
    import jsonpickle
    bad = []
    for n, f in P.VALS.items():
        if n == 'bad':
            continue
        v = f()
        try:
            if P.canon(jsonpickle.decode(jsonpickle.encode(v, unpicklable=True))) != P.canon(v):
                bad.append(n)
        except Exception:
            bad.append(n)
    _UNFAITHFUL = bad


def _uses(prog, names):
    import json
    t = json.dumps(prog)
    return any('"%s"' % n in t for n in names)


def run_case(case):
    if case.get('engine') == 'sched':
        from mc.checks import c01_threads
        return c01_threads.run_case(case)
    prog = case['prog']
    if _UNFAITHFUL and _uses(prog, _UNFAITHFUL):
        return dict(viol=[], obs='skipped-unfaithful', extra={'skipped_unfaithful': 1})
    box = cassettes.Box(case['cas'])
    try:
        return _run(case, prog, box)
    finally:
        box.close()


def _run(case, prog, box):
    viols = []
    R = P.ref(prog)
    r = P.record(prog, inner=box.cassette)
    if R['final'] != 'saved' or ('save', r.rec_id) not in r.log:
        return dict(viol=[viol('harness:not-saved', 'recording was not saved', R['final'], r.log)], obs='unsaved')
    if not P.faithful(r.env.spy.saved_objs[r.rec_id]):
        return dict(viol=[], obs='outside-faithful-domain', extra={'skipped_unfaithful': 1})
    if P.obs_canon(r.obs) != R['obs']:
        viols.append(viol('record:obs-differ-from-reference', 'what the recorded operation observed differs from the reference', R['obs'], P.obs_canon(r.obs)))
    env2 = P.Env(inner=box.fresh(), funcs=prog.get('funcs'), kind=prog.get('kind', 'inst'))
    if case.get('after_failed_replay'):   # the replaying recorder has just been through a replay that failed with an escaping error
        P.replay(env2, r.rec_id, {'steps': [{'fn': 'out_a', 'a': ['x1']}, {'fn': 'out_static', 'a': ['x1']}, {'fn': 'in_b', 'a': ['xb'], 'nocatch': True}]})
        P.replay(env2, r.rec_id, {'steps': [{'fn': 'out_b', 'a': ['x1']}], 'end': 'intr'})
    pl = P.replay(env2, r.rec_id, prog)
    if pl.playback is None:
        return dict(viol=[viol('replay:raised:%s' % type(pl.exc).__name__, 'play() raised on a complete recording of unchanged code', 'Playback', repr(pl.exc))], obs='raised')
    # (i) every interception observes what it observed while recording
    if P.obs_canon(pl.obs) != P.obs_canon(r.obs):
        viols.append(viol('replay:obs-differ', 'replayed interceptions observed different values/exceptions than recorded (cassette %s)' % case['cas'],
                          P.obs_canon(r.obs), P.obs_canon(pl.obs)))
    # (ii) no body runs during replay
    bodies = [e['fn'] for e in pl.journal if e['fn'] != '<extractor>']
    if bodies:
        viols.append(viol('replay:body-executed', 'intercepted bodies executed during replay', [], bodies))
    # (iii)+(iv) captured outputs equal recorded outputs one for one, including the operation entry
    al = P.all_aliases(prog.get('funcs'))
    rec_map = P.outputs_map(pl.playback.recorded_outputs, al)
    play_map = P.outputs_map(pl.playback.playback_outputs, al)
    exp = dict(R['outputs'])
    exp[(P.OP_ALIAS, 1)] = R['op']
    if rec_map != play_map:
        d = sorted(str(k) for k in set(rec_map) | set(play_map) if rec_map.get(k) != play_map.get(k))
        viols.append(viol('replay:outputs-differ', 'playback outputs differ from recorded outputs at %s (cassette %s)' % (d[:4], case['cas']),
                          {k: str(rec_map.get(eval(k)))[:150] for k in d[:3]}, {k: str(play_map.get(eval(k)))[:150] for k in d[:3]}))
    if rec_map != exp and not case.get('no_ref_outputs'):
        d = sorted(str(k) for k in set(rec_map) | set(exp) if rec_map.get(k) != exp.get(k))
        viols.append(viol('record:outputs-differ-from-reference', 'recorded outputs differ from the reference at %s' % d[:4],
                          {k: str(exp.get(eval(k)))[:150] for k in d[:3]}, {k: str(rec_map.get(eval(k)))[:150] for k in d[:3]}))
    if [e[0] for e in pl.log] != ['get']:
        viols.append(viol('replay:cassette-touched', 'replay reached the cassette with more than the fetch', ['get'], pl.log))
    n_int = len(R['inputs']) + len(R['outputs'])
    fns = [s.get('fn') for s in prog['steps'] if 'fn' in s]
    nontrivial = n_int >= 1 and len(set(fns)) < len(fns) or n_int >= 2
    return dict(viol=viols, obs=repr((case['cas'], P.obs_canon(pl.obs), sorted(map(str, play_map)))), nontrivial=nontrivial,
                transitions=2 * len(prog['steps']) + 3)
