"""C07 - stored recordings round-trip through every cassette (content universe + save/fetch histories)."""
from __future__ import annotations

import itertools

from mc import cassettes, progs as P
from mc.core import viol
from mc.refeq import canon

ID = 'C07'
LEVEL = 'model_checking'
RULE = ('(A) content: every combination of 0..3 keys from 12 key texts (quotes, unicode, separators, JSON metacharacters, newline, '
        'input/output-key shaped, keys sorting before "_metadata") with values rotating through the value universe, incl. one object shared '
        'between two keys and between data and metadata, x 6 metadata kinds, on 6 cassette configurations (memory, file, S3 with key prefix '
        "'', 'p', 'p/q' on a fake bucket, S3 with a keep-everything sampling calculator); (A') a save that the serializer refuses (value in data / in metadata, first or after a good save): the id then counts as never saved; (B) histories: every sequence up to the depth bound over save / re-save / get / get-metadata of 3 "
        'recordings in 2 categories + fetches of never-saved ids, each fetch compared with a reference store (dict copied at save time); '
        'states = distinct reference-store states. Non-trivial = at least one save and one fetch.')
ASSUMPTIONS = ['contents limited to the measured faithful domain of jsonpickle 0.9.3 (both document forms the cassettes use are measured on the third-party library alone)',
               'S3 on an in-memory fake bucket (strong consistency)']

KEYTEXTS = ['k', 'a"b', u'\xe9✓', 'x: y, z=', '{"j":[1]}', 'a/b', 'line\nbreak', 'input: ia args=[1], kwargs=[]', 'output: oa #1.output',
            'A key', '0', 'json://1']
VALCYCLE = ['vlst', 'vtup', 'vdct', 'vs', 'vb', 'v0', 'vset', 'vn', 'vq', 'vu', 'vf', 'vt', 'vobj']
METAS = ['none', 'plain', 'tuple', 'class', 'shared', 'oddkeys']
CONFIGS = [('mem', None), ('file', None), ('s3', ''), ('s3', 'p'), ('s3', 'p/q'), ('s3-keep-all-calculator', 'c')]


def bounds(tier):
    return {'key_texts': len(KEYTEXTS), 'keys_per_recording_max': 3, 'metadata_kinds': len(METAS), 'cassette_configs': len(CONFIGS),
            'history_depth': 3 if tier == 'quick' else 4, 'history_letters': 12}


def gen_cases(tier, seed):
    for ci in range(len(CONFIGS)):
        for n in range(0, 4):
            for combo in itertools.combinations(range(len(KEYTEXTS)), n):
                for mi, meta in enumerate(METAS):
                    if n == 3 and tier == 'quick' and (sum(combo) + mi) % 3:
                        continue
                    yield {'k': 'content', 'cfg': ci, 'keys': list(combo), 'meta': meta, 'rot': (sum(combo) + mi) % len(VALCYCLE)}
        for when in ('first', 'after-good-save'):
            for pos in ('data', 'metadata'):
                yield {'k': 'unsavable', 'cfg': ci, 'when': when, 'pos': pos}
        depth = 3 if tier == 'quick' else 4
        letters = HLETTERS
        for n in range(1, depth + 1):
            for h in itertools.product(range(len(letters)), repeat=n):
                if not any(letters[i][0] in ('save', 'resave') for i in h[:-1]) and n > 1 and letters[h[-1]][0] in ('save', 'resave'):
                    continue  # histories that only save at the very end observe nothing
                yield {'k': 'hist', 'cfg': ci, 'h': list(h)}
                if n >= 2 and sum(1 for i in h if letters[i][0] == 'save') >= 2:
                    yield {'k': 'hist', 'cfg': ci, 'h': list(h), 'open_all': True}          # all recordings are created before any is saved
                if n >= 2 and any(letters[i][0] in ('save', 'resave') for i in h[:-1]):
                    yield {'k': 'hist', 'cfg': ci, 'h': list(h), 'same_obj': True}          # re-saves reuse the recording OBJECT; every save also goes to a second cassette
                if n >= 2 and any(letters[i][0] in ('save', 'resave') for i in h[:-1]) and ci in (1, 3, 5):
                    yield {'k': 'hist', 'cfg': ci, 'h': list(h), 'long_cat': True}          # categories with very long names
                if n >= 2 and any(letters[i][0] in ('save', 'resave') for i in h[:-1]) and ci in (1, 2, 4):
                    yield {'k': 'hist', 'cfg': ci, 'h': list(h), 'dotted_cat': True}


HLETTERS = [('save', 0), ('save', 1), ('save', 2), ('resave', 0), ('get', 0), ('get', 1), ('get', 2), ('meta', 0), ('meta', 2),
            ('get-unknown', 'Op'), ('get-unknown', 'Zz'), ('meta-unknown', 'Op')]


class Standin(object):
    """Same attribute names as the repository's MemoryRecording, so jsonpickle walks the same shape (third-party measure only)."""


def faithful_forms(rid, data, meta):
    import jsonpickle
    s = Standin()
    s._closed, s.id, s.recording_data, s.recording_metadata = False, rid, data, meta
    try:
        a = jsonpickle.decode(jsonpickle.encode(s, unpicklable=True))
        ok1 = canon(a.recording_data) == canon(data) and canon(a.recording_metadata) == canon(meta)
        full = dict(data)
        full['_metadata'] = meta
        ok2 = canon(jsonpickle.decode(jsonpickle.encode(full, unpicklable=True))) == canon(full)
        ok3 = canon(jsonpickle.decode(jsonpickle.encode(meta, unpicklable=True))) == canon(meta)
        return ok1 and ok2 and ok3
    except Exception:
        return False


def mkbox(ci):
    kind, prefix = CONFIGS[ci]
    if kind == 's3-keep-all-calculator':   # storage-level sampling switched on, with a calculator that keeps everything
        return cassettes.Box('s3', prefix=prefix, sampling_calculator=lambda category, size, recording: 1)
    return cassettes.Box(kind, prefix=prefix) if kind == 's3' else cassettes.Box(kind)


def content(case):
    shared = [1, 'shared']
    data = {}
    for j, ki in enumerate(case['keys']):
        v = P.mkval(VALCYCLE[(case['rot'] + j) % len(VALCYCLE)])
        if case['meta'] == 'shared' and j < 2:
            v = {'value': v, 'sh': shared}
        data[KEYTEXTS[ki]] = v
    meta = {'none': {}, 'plain': {'m': 1, 's': 'ab', 'l': [1, {'x': None}], 'f': 1.5, 'b': True},
            'tuple': {'t': (1, 'x'), 'n': None}, 'class': {'cls': P.Plain, 'd': 1.0}, 'shared': {'sh': shared, 'm': 2},
            'oddkeys': {'json://2': 1, 'a.b': {'json://"q"': [1], '1': 'one'}, '': 0, u'\xe9': {'_metadata': 1}}}[case['meta']]
    return data, meta


def compare(viols, tag, cfg, rec, rid, data, meta, fetched_meta):
    if rec is None or not hasattr(rec, 'get_all_keys'):
        viols.append(viol('%s:fetch-returned-%s' % (tag, type(rec).__name__), 'fetch of a saved id returned no recording (%s)' % (CONFIGS[cfg],), 'Recording', repr(rec)))
        return
    if rec.id != rid:
        viols.append(viol('%s:id' % tag, 'fetched recording has another id', rid, rec.id))
    if set(rec.get_all_keys()) != set(data):
        viols.append(viol('%s:keys' % tag, 'fetched recording has another key set (%s)' % (CONFIGS[cfg],), sorted(data), sorted(rec.get_all_keys())))
    else:
        for k in data:
            if canon(rec.get_data(k)) != canon(data[k]):
                viols.append(viol('%s:data' % tag, 'data under key %r differs after the round trip (%s)' % (k, CONFIGS[cfg]), canon(data[k]), canon(rec.get_data(k))))
                break
    if canon(rec.get_metadata()) != canon(meta):
        viols.append(viol('%s:metadata' % tag, 'metadata differs after the round trip (%s)' % (CONFIGS[cfg],), canon(meta), canon(rec.get_metadata())))
    if canon(fetched_meta) != canon(rec.get_metadata()):
        viols.append(viol('%s:metadata-alone-disagrees' % tag, 'metadata fetched on its own disagrees with the metadata of the full recording (%s)' % (CONFIGS[cfg],),
                          canon(rec.get_metadata()), canon(fetched_meta)))


def run_case(case):
    box = mkbox(case['cfg'])
    try:
        return _content(case, box) if case['k'] == 'content' else _unsavable(case, box) if case['k'] == 'unsavable' else _hist(case, box)
    finally:
        box.close()


def _content(case, box):
    data, meta = content(case)
    c = box.cassette
    r = c.create_new_recording('Op')
    if not faithful_forms(r.id, data, meta):
        return dict(viol=[], obs='outside-faithful-domain', extra={'skipped_unfaithful': 1})
    for k, v in data.items():
        r.set_data(k, v)
    r.add_metadata(meta)
    c.save_recording(r)
    viols = []
    pristine_data, pristine_meta = content(case)
    f = box.fresh()
    try:
        rec = f.get_recording(r.id)
        fm = f.get_recording_metadata(r.id)
    except Exception as e:
        return dict(viol=[viol('content:fetch-raised:%s' % type(e).__name__, 'fetching a saved recording raised (%s)' % (CONFIGS[case['cfg']],), 'Recording', repr(e))], obs='raised')
    compare(viols, 'content', case['cfg'], rec, r.id, pristine_data, pristine_meta, fm)
    uniq = {}
    for v in viols:
        uniq.setdefault(v['sig'], v)
    return dict(viol=list(uniq.values()), obs=repr((case['cfg'], sorted(map(repr, canon(pristine_data))))), nontrivial=len(data) > 0, transitions=3)


def _unsavable(case, box):
    """A save that fails inside the cassette (the serializer refuses a value): the id was not saved, so fetching it says so."""
    from playback.exceptions import NoSuchRecording
    c = box.cassette
    viols = []
    good = None
    if case['when'] == 'after-good-save':
        good = c.create_new_recording('Op')
        good.set_data('k', [1, 2])
        good.add_metadata({'m': 1})
        c.save_recording(good)
    r = c.create_new_recording('Op')
    r.set_data('k', P.Unencodable() if case['pos'] == 'data' else 1)
    r.add_metadata({'m': P.Unencodable() if case['pos'] == 'metadata' else 2})
    try:
        c.save_recording(r)
        refused = False
    except Exception:
        refused = True
    if refused:
        for f, how in ((c, 'same cassette object'), (box.fresh(), 'another cassette object')):
            for name, call in (('get_recording', f.get_recording), ('get_recording_metadata', f.get_recording_metadata)):
                try:
                    got = call(r.id)
                    viols.append(viol('failed-save:%s-returned' % name, 'the save of this id failed, fetching it (%s) returned something (%s)' % (how, CONFIGS[case['cfg']],), 'NoSuchRecording', repr(got)[:200]))
                except NoSuchRecording:
                    pass
                except Exception as e:
                    viols.append(viol('failed-save:%s-raised-%s' % (name, type(e).__name__), 'the save of this id failed, fetching it (%s) must signal NoSuchRecording (%s)' % (how, CONFIGS[case['cfg']],),
                                      'NoSuchRecording', repr(e)[:200]))
    if good is not None:   # ... and the recording saved before it is still whole
        try:
            f = box.fresh()
            compare(viols, 'failed-save:neighbour', case['cfg'], f.get_recording(good.id), good.id, {'k': [1, 2]}, {'m': 1}, f.get_recording_metadata(good.id))
        except Exception as e:
            viols.append(viol('failed-save:neighbour-raised-%s' % type(e).__name__, 'a recording saved before the failing save can no longer be fetched', 'Recording', repr(e)[:200]))
    uniq = {}
    for v in viols:
        uniq.setdefault(v['sig'], v)
    return dict(viol=list(uniq.values()), obs=repr((case['cfg'], case['when'], case['pos'], refused)), nontrivial=refused, transitions=3, extra={'saves_refused_by_serializer': int(refused)})


def _hist_content(i, version):
    data = {'k': [i, version], 'a"b': {'n': i}, 'only%d' % i: (i, 'x')}
    meta = {'m': i, 'ver': version, 'l': [version]}
    return data, meta


def _hist(case, box):
    from playback.exceptions import NoSuchRecording
    cats = ['Op', 'Op', 'OpX']
    if case.get('dotted_cat'):   # dotted (module-qualified) operation names: the ids contain dots
        cats = ['billing.v2.Invoice', 'billing.v2.Invoice', 'billing.v2']
    if case.get('long_cat'):
        long = 'LongOperationName' * 8   # 136 characters: beyond any 128-character shortcut, within the file-system limit
        cats = [long, long, long + 'X']
    c = box.cassette
    recs = {}     # i -> recording object (created lazily, so ids exist before being saved)
    ids = {}
    ref = {}      # recording index -> (data, meta) as saved (NOT keyed by id: two recordings must never answer for each other)
    version = {}
    viols = []
    states = []
    reader = box.fresh()
    mirror = mkbox(case['cfg']) if case.get('same_obj') else None
    kept = {}
    if case.get('open_all'):   # several recordings are open at the same time
        for i in range(3):
            recs[i] = c.create_new_recording(cats[i])
            ids[i] = recs[i].id
    for step, li in enumerate(case['h']):
        op, arg = HLETTERS[li]
        if op in ('save', 'resave'):
            i = arg
            if op == 'resave' and i not in ids:
                op = 'save'
            version[i] = version.get(i, 0) + 1
            if i not in ids:
                r = c.create_new_recording(cats[i])
                ids[i] = r.id
            elif i in recs and i not in ref:
                r = recs.pop(i)   # created earlier (open_all), saved now
            elif i in kept:
                r = kept[i]       # the very object that was saved before: item assignment stays possible on it
            else:
                from playback.recordings.memory.memory_recording import MemoryRecording
                r = MemoryRecording(ids[i])
            data, meta = _hist_content(i, version[i])
            try:
                if i in kept:
                    for k, v in data.items():
                        r[k] = v
                    c.save_recording(r)
                    ref[i] = (_hist_content(i, version[i])[0], ref[i][1])   # metadata of a saved recording object can no longer be added to
                else:
                    for k, v in data.items():
                        r.set_data(k, v)
                    r.add_metadata(meta)
                    c.save_recording(r)
                    ref[i] = _hist_content(i, version[i])
                if mirror is not None:
                    kept[i] = r
                    mirror.cassette.save_recording(r)
            except Exception as e:   # the code under test refused a save inside the domain: a verdict, not a harness problem
                viols.append(viol('hist:save-raised:%s' % type(e).__name__, 'saving a recording raised after history %s (%s)' % ([HLETTERS[x] for x in case['h'][:step]], CONFIGS[case['cfg']]), 'saved', repr(e)[:200]))
        elif op in ('get', 'meta'):
            i = arg
            if i not in ids:
                r = c.create_new_recording(cats[i])   # an id that exists but was never saved
                ids[i] = r.id
            rid = ids[i]
            f = reader if op == 'get' else c   # one long-lived reader object (caches would live in it) + the writer itself
            try:
                got = f.get_recording(rid) if op == 'get' else f.get_recording_metadata(rid)
                exc = None
            except Exception as e:
                got, exc = None, e
            if i in ref:
                if exc is not None:
                    viols.append(viol('hist:fetch-raised:%s' % type(exc).__name__, 'fetch of a saved recording raised after history %s' % [HLETTERS[x] for x in case['h'][:step]], 'value', repr(exc)))
                elif op == 'get':
                    try:
                        alone = f.get_recording_metadata(rid)
                    except Exception as e:
                        alone = None
                        viols.append(viol('hist:metadata-alone-raised:%s' % type(e).__name__, 'metadata of a saved recording cannot be fetched on its own', 'metadata', repr(e)))
                    compare(viols, 'hist', case['cfg'], got, rid, ref[i][0], ref[i][1], alone if alone is not None else got.get_metadata())
                    if hasattr(got, 'get_all_keys'):   # what a caller does with ITS copy must not reach what later fetches see
                        got['k'] = 'TAMPERED'
                        got.get_metadata()['m'] = 'TAMPERED'
                        d = got.get_data_direct('a"b')
                        if isinstance(d, dict):
                            d['n'] = 'TAMPERED'
                elif canon(got) != canon(ref[i][1]):
                    viols.append(viol('hist:metadata', 'metadata fetched alone differs from what was saved', canon(ref[i][1]), canon(got)))
                elif isinstance(got, dict):
                    got['ver'] = 'TAMPERED'
            else:
                if not isinstance(exc, NoSuchRecording):
                    viols.append(viol('never-saved:%s:%s' % (op, 'returned-' + type(got).__name__ if exc is None else type(exc).__name__),
                                      'fetching an id that was never saved must signal NoSuchRecording (%s)' % (CONFIGS[case['cfg']],), 'NoSuchRecording', repr(exc or got)))
        else:
            cat = arg
            probe = c.create_new_recording(cat).id
            bogus = probe[:-4] + 'beef'
            if case.get('dotted_cat') and ids:
                bogus = sorted(ids.values())[0] + '.bak'   # a saved id followed by a dot and more text was never saved either
            try:
                got = c.get_recording(bogus) if op == 'get-unknown' else c.get_recording_metadata(bogus)
                exc = None
            except Exception as e:
                got, exc = None, e
            if not isinstance(exc, NoSuchRecording):
                viols.append(viol('never-saved:%s:%s' % (op, 'returned-' + type(got).__name__ if exc is None else type(exc).__name__),
                                  'fetching an id that was never saved must signal NoSuchRecording (%s)' % (CONFIGS[case['cfg']],), 'NoSuchRecording', repr(exc or got)))
        states.append(repr(sorted((i, version.get(i)) for i in ids if i in ref)))
    if mirror is not None:
        try:
            for i in sorted(ref):
                try:
                    got = mirror.fresh().get_recording(ids[i])
                    compare(viols, 'hist-second-cassette', case['cfg'], got, ids[i], ref[i][0], ref[i][1], mirror.cassette.get_recording_metadata(ids[i]))
                except Exception as e:
                    viols.append(viol('hist-second-cassette:fetch-raised:%s' % type(e).__name__, 'a recording object saved to a second cassette cannot be fetched from it', 'Recording', repr(e)))
        finally:
            mirror.close()
    uniq = {}
    for v in viols:
        uniq.setdefault(v['sig'], v)
    return dict(viol=list(uniq.values()), obs=repr((case['cfg'], states[-1])), states=[(case['cfg'], s) for s in states],
                nontrivial=bool(ref) and any(HLETTERS[x][0] in ('get', 'meta') for x in case['h']), transitions=len(case['h']), evals=len(case['h']))
