"""C13 - comparison runs always finish and leave no worker behind (real Equalizer on virtual multiprocessing + virtual time)."""
from __future__ import annotations

import itertools

from mc import eqspace as Q
from mc.core import viol

ID = 'C13'
LEVEL = 'model_checking'
RECHECK = 10   # cases are whole schedule explorations: fewer of them are re-executed for the determinism check
CHUNK = 4
RULE = ('the real Equalizer on virtual multiprocessing / virtual time: every vector over {ok, worker exits, hangs, answers late, hangs '
        'trapping SIGTERM} up to the length bound (all positions: first, last, consecutive) x recycle rate {1,2,3} x timeout {0,1,3} virtual '
        'seconds, consumed fully, and for a sub-grid closed or dropped after k items (k = 0 included: before anything was taken) / aborted by a consumer exception after k items for every k, '
        'under EVERY schedule of parent and workers up to the preemption bound: termination (no deadlock, horizon never hit), no virtual '
        'process alive afterwards, virtual time per comparison <= timeout + 2 (dead worker reported within one poll), replays per worker '
        '<= recycle rate, number of workers started == what the policy implies. thorough: conformance runs with real processes.')
ASSUMPTIONS = ['roughly-the-timeout is decided in virtual time (one 1-s poll of slack); real-time slack only in the thorough conformance runs',
               'SIGKILL landing while a worker holds an OS-level queue lock is modelled as poisoning that queue',
               'a generator that is dropped without close() is closed by the garbage collector (CPython)']
B = ['equal', 'exit', 'hang', 'late', 'hang_traps_sigterm', 'late_unkillable', 'player_raises_badstr']


def bounds(tier):
    return {'behaviours': B, 'vector_len': 3 if tier == 'quick' else 4, 'recycle': [1, 2, 3], 'timeouts': [0, 1, 3], 'consumers': 'drain; close/raise after every k (sub-grid)',
            'preemption_bound': {'len<=2': 2, 'longer': 1 if tier == 'quick' else 2}}


def gen_cases(tier, seed):
    mx = 3 if tier == 'quick' else 4
    for n in range(1, mx + 1):
        # the longest vectors of the thorough tier use the five behaviours that drive the worker protocol differently
        alphabet = B if not (tier == 'thorough' and n == mx) else ['equal', 'exit', 'hang', 'late', 'late_unkillable']
        for vec in itertools.product(alphabet, repeat=n):
            for recycle in (1, 2, 3):
                for timeout in (0, 1, 3, 0.5):
                    if n == mx and tier == 'thorough' and (recycle, timeout) not in ((1, 1), (2, 1), (2, 3), (3, 0), (2, 0.5)):
                        continue
                    if n == mx and tier == 'quick' and (recycle, timeout) not in ((1, 1), (2, 1), (2, 0.5), (3, 3)):
                        continue
                    b = 2 if n <= 2 or tier == 'thorough' else 1
                    if list(vec).count('late_unkillable') >= 2 and n >= 3:
                        b = 1   # several surviving workers at once: the two-preemption space exceeded the execution cap; completed at one
                    yield {'vec': list(vec), 'recycle': recycle, 'timeout': timeout, 'bound': b, 'consumer': ['drain']}
            if n >= 2 and n < mx or (n == mx and len(set(vec)) <= 2):
                # timed waits of the parent other than the result poll (e.g. a join with a timeout) may expire: one budgeted expiry
                yield {'vec': list(vec), 'recycle': 1, 'timeout': 1, 'bound': 1, 'consumer': ['drain'], 'timers': 1}
                yield {'vec': list(vec), 'recycle': 2, 'timeout': 1, 'bound': 1, 'consumer': ['drain'], 'timers': 1}
            if n >= 2:
                for k in range(0, n + 1):
                    for kind in ('close', 'raise', 'drop') if k else ('close', 'drop'):
                        yield {'vec': list(vec), 'recycle': 2, 'timeout': 1, 'bound': 2 if n <= 2 else 1, 'consumer': [kind, k]}
    if tier == 'thorough':
        for vec in [('hang',), ('exit',), ('equal', 'hang'), ('hang', 'hang'), ('exit', 'exit', 'equal'), ('equal', 'equal', 'hang'), ('hang', 'equal', 'exit'),
                    ('equal', 'exit', 'hang', 'equal')]:
            for consumer in (['drain'], ['close', 1]):
                yield {'vec': list(vec), 'recycle': 2, 'timeout': 1, 'consumer': consumer, 'real': True}


def heavy(case):
    return bool(case.get('real'))


def run_case(case):
    vec = tuple(case['vec'])
    if case.get('real'):
        return real_run(vec, case['consumer'])
    cfg = {'recycle': case['recycle'], 'timeout': case['timeout'], 'keep': False}
    ex, viols, outcomes = Q.explore_config(vec, cfg, case['bound'], consumer=tuple(case['consumer']), want=('liveness', 'verdicts'), timer_budget=case.get('timers', 0))
    viols = [v for v in viols if not v['sig'].startswith('verdicts:') or v['sig'].startswith('verdicts:ids') or 'status' in v['sig']]
    # C13 owns liveness / bounds; of the verdict oracle only "the run continues" (status of later recordings, one per id) is used here
    return dict(viol=viols, obs=repr(sorted(outcomes))[:1500], states=list(outcomes), nontrivial=any(b != 'equal' for b in vec), ntkey=repr(case),
                evals=ex['executions'], transitions=ex['executions'] * max(1, ex['max_points']),
                caps=['execution cap hit %s' % case] if ex['capped'] else [], extra={'schedules': ex['executions']})


def real_run(vec, consumer):
    import json
    import os
    import subprocess
    import sys
    viols = []
    r = None
    for attempt in range(3):   # real time is not owned: a problem must persist over three runs before it is reported
        out = subprocess.run([sys.executable, '-c', 'from mc.checks import c13; c13.real_child()', json.dumps(list(vec)), json.dumps(consumer)],
                             capture_output=True, text=True, timeout=180, cwd=os.path.dirname(os.path.dirname(os.path.dirname(os.path.abspath(__file__)))))
        if out.returncode != 0:
            continue
        r = json.loads(out.stdout.strip().splitlines()[-1])
        viols = []
        if r['children_left']:
            viols.append(viol('conformance:real-worker-left-behind', 'real worker processes alive 1 s after the run (vector %s, consumer %s)' % (list(vec), consumer), [], r['children_left']))
        slow = [(b, d) for b, d in zip(vec, r['durations']) if d > (1 + 2.5 if b != 'exit' else 2.0)]
        if slow:
            viols.append(viol('conformance:real-comparison-too-slow', 'wall time of a faulty comparison exceeds timeout + slack', '<= timeout + 2.5 s', slow))
        if not viols:
            break
    if r is None:
        return dict(viol=[viol('conformance:real-run-failed', 'real multiprocessing run failed', 'ok', out.stderr[-500:])], obs='failed')
    return dict(viol=viols, obs=repr((r['n'], r['children_left'])), nontrivial=True, evals=1)


def real_child():
    import json
    import logging
    import multiprocessing as mp
    import sys
    import time
    logging.disable(logging.CRITICAL)
    from mc import core, vmp
    core.bind_repo()
    from playback.studio.equalizer import Equalizer, EqualityStatus, ComparatorResult, CompareExecutionConfig
    vec = json.loads(sys.argv[1])
    consumer = json.loads(sys.argv[2])
    ids = ['r%d' % i for i in range(len(vec))]
    beh = dict(zip(ids, vec))

    def player(rid):
        if beh[rid] == 'exit':
            sys.exit(1)
        if beh[rid] == 'hang':
            time.sleep(120)
        return vmp.FakePlayback(rid)
    eq = Equalizer(iter(ids), player, lambda o: o, lambda a, b: ComparatorResult(EqualityStatus.Equal, a[1]),
                   compare_execution_config=CompareExecutionConfig(compare_in_dedicated_process=True, compare_process_recycle_rate=2, compare_process_timeout=1))
    gen = eq.run_comparison()
    durations = []
    n = 0
    t = time.time()
    for c in gen:
        durations.append(time.time() - t)
        n += 1
        if consumer[0] == 'close' and n >= consumer[1]:
            gen.close()
            break
        t = time.time()
    time.sleep(1.0)
    left = [p.pid for p in mp.active_children()]
    for p in mp.active_children():
        p.kill()
    print(json.dumps({'n': n, 'durations': durations, 'children_left': left}))


def replay_one(case, violation):
    cfg = {'recycle': case['recycle'], 'timeout': case['timeout'], 'keep': False}
    return Q.replay_schedule(tuple(case['vec']), cfg, tuple(case['consumer']), violation['schedule'], ('liveness', 'verdicts'), timer_budget=case.get('timers', 0))
