"""C18 - recording metadata tells the truth about the run (every termination point x extractor kinds x cassettes)."""
from __future__ import annotations

import datetime

from mc import faultspace as F, progs as P
from mc.core import viol

ID = 'C18'
LEVEL = 'fault_enumeration'
RULE = ('the C05 program x fault-placement space (termination by return / ordinary exception / interrupt at every step boundary and '
        'inside every intercepted body, instance and class-level operations, 10 extractor kinds); the metadata of every stored recording '
        'is fetched back from the cassette (memory for all cases; file and S3(fake) for the single-placement slice) and compared with the '
        'reference: class, duration == harness clock delta, timestamp, incomplete, exception flag, user keys, default lookup == complete ones. '
        'Non-trivial = stored recording whose run had a fault or a non-default ending.')
ASSUMPTIONS = ['the recording timestamp is the UTC time of the end of the run (as on the pinned tree); the simulated process runs in a UTC+9 local zone',
               'harness clock replaces time()/datetime.utcnow() inside tape_recorder (seams found by scanning the module globals)',
               "operations raising the framework's own TapeRecorderException are outside the alphabet"]
FW = ['_tape_recorder_recording_duration', '_tape_recorder_recorded_at', '_tape_recorder_operation_class',
      '_tape_recorder_exception_in_operation', '_tape_recorder_incomplete_recording']


def bounds(tier):
    return {'base_len_max': 2 if tier == 'quick' else 3, 'extractor_kinds': 10, 'termination_points': 'every step boundary and every body',
            'cassettes': {'mem': 'all', 'file,s3': 'single placements'}}


def gen_cases(tier, seed):
    for c in F.gen(tier, extra_gap=('gap-disable',)):
        c = dict(c, cas='mem')
        yield c
        if len(c['mods']) <= 1 and c['glob'] in ('none', 'ext-dict', 'cls-ext', 'ext-raise', 'ext-partial') and len(c['base']) == 1:
            yield dict(c, cas='file')
            yield dict(c, cas='s3')


_seams = None


def worker_init():
    global _seams
    from mc import seams
    _seams = seams.install_recorder_clock(lambda: P.RT.clock)


def run_case(case):
    b = F.execute(case, second=False, cas=case['cas'])
    try:
        return _judge(case, b)
    finally:
        b.box.close()


def _judge(case, b):
    viols = []
    R, r1 = b.R, b.r1
    fresh = b.box.fresh()
    stored = False
    obs = 'not-stored'
    if R['final'] == 'saved':
        try:
            md = fresh.get_recording_metadata(r1.rec_id)
            md2 = fresh.get_recording(r1.rec_id).get_metadata()
            stored = True
        except Exception as e:
            return dict(viol=[viol('not-fetchable:%s' % type(e).__name__, 'saved recording cannot be fetched', 'metadata', repr(e))], obs='unfetchable')
        if P.canon(md) != P.canon(md2):
            viols.append(viol('metadata-fetch-disagrees', 'metadata fetched alone differs from the metadata of the full recording', md2, md))
        cls = md.get(FW[2])
        if not (isinstance(cls, type) and cls.__module__ == 'mc.progs' and cls.__qualname__ == b.env.cls.__qualname__):
            viols.append(viol('class', 'operation class in metadata is not the operation\'s class', b.env.cls, cls))
        if 'time' in (_seams or []) or True:
            if md.get(FW[0]) != R['ticks'] or not (md.get(FW[0]) >= 0):
                viols.append(viol('duration', 'duration differs from the wall time the operation took', R['ticks'], md.get(FW[0])))
            exp_at = str(datetime.datetime(2020, 1, 1) + datetime.timedelta(seconds=r1.t1))
            if md.get(FW[1]) != exp_at:
                viols.append(viol('recorded-at', 'recording timestamp is not the time the recording ended', exp_at, md.get(FW[1])))
        if md.get(FW[4]) is not R['incomplete']:
            viols.append(viol('incomplete:expected-%s:got-%s' % (R['incomplete'], md.get(FW[4])),
                              'incomplete flag: true exactly for runs cut short by an interrupt-style exception (outcome %s)' % (R['outcome'],), R['incomplete'], md.get(FW[4])))
        if not R['incomplete'] and md.get(FW[3]) is not R['exc_flag']:
            viols.append(viol('exception-flag:expected-%s:got-%s' % (R['exc_flag'], md.get(FW[3])), 'exception flag of a run that was not cut short', R['exc_flag'], md.get(FW[3])))
        user = {k: v for k, v in md.items() if k not in FW and not str(k).startswith('_tape_recorder_')}   # (further framework-reserved keys are not user metadata)
        if b.prog.get('ext') == 'nonstr':
            # a mapping with a non-string key: the serializer turns the key into text; all of the extractor's entries or none of them
            keys = sorted(map(str, user))
            if keys not in ([], sorted(map(str, R['user_meta']))):
                viols.append(viol('user-metadata:partial-mapping', 'user metadata must be all of the extractor\'s entries or none of them', sorted(R['user_meta']), keys))
        elif P.canon(user) != P.canon(R['user_meta']):
            viols.append(viol('user-metadata:%s' % (b.prog.get('ext')), 'user metadata must be the extractor\'s dict, or none of it if the extractor fails (extractor kind %s)' % b.prog.get('ext'),
                              R['user_meta'], user))
        # default lookup returns exactly the complete recordings
        from playback.studio.recordings_lookup import find_matching_recording_ids, RecordingLookupProperties
        env2 = P.Env(inner=fresh, enabled=False)
        try:
            ids = sorted(find_matching_recording_ids(env2.tr, b.env.cls.__name__, RecordingLookupProperties(start_date=None)))
            exp_ids = sorted(b.prior_ids + ([] if R['incomplete'] else [r1.rec_id]))
            if ids != exp_ids:
                viols.append(viol('default-lookup', 'the default (skip incomplete) lookup must return exactly the complete recordings', exp_ids, ids))
        except Exception as e:
            viols.append(viol('default-lookup:raised:%s' % type(e).__name__, 'default lookup raised', 'ids', repr(e)))
        obs = repr((md.get(FW[4]), md.get(FW[3]), sorted(user), md.get(FW[0])))
    uniq = {}
    for x in viols:
        uniq.setdefault(x['sig'], x)
    return dict(viol=list(uniq.values()), obs=obs, nontrivial=stored and (bool(case['mods']) or case['end'] != 'ret' or case['glob'] != 'none'),
                transitions=len(b.prog['steps']) + 3)
