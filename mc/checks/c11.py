"""C11 - recorded data cannot be altered through the values handed out."""
from __future__ import annotations

import itertools

from mc import cassettes, progs as P
from mc.core import viol
from mc.refeq import canon, mutable_nodes

ID = 'C11'
LEVEL = 'exploration'
RULE = ('every mutable value shape (list, dict, set, object, nested, tuple holding a list / an object, shared sub-list, exception with a '
        'mutable attribute) x every read path (get_data, recording[key], get_data_direct, metadata of a fetched recording, metadata fetched '
        'alone, value injected into a replayed input and mutated by the replayed code, recorded exception caught and mutated, '
        'Playback.recorded_outputs, Playback.original_recording) x every kind of second observation (second read of the same recording '
        'object, second fetch from the same cassette object, fetch through a fresh cassette object, second replay) x the three cassettes; '
        'every mutable node reached through the first observation is mutated in place; plus copy-on-interception with post-capture mutation. '
        'Non-trivial = the first observation had at least one mutable node.')
ASSUMPTIONS = ['get_metadata() of ONE recording object returning its live dict is not demanded (the statement speaks of data and of fetches)',
               'get_data_direct may hand out the stored object of that recording object; independence is demanded between fetches',
               'with copy-on-interception off nothing is asserted about post-capture mutation (documented opt-in)']
SHAPES = ['vlst', 'vdct', 'vset', 'vobj', 'vtl', 'vfl', 'vsh', 'vdo']
P.VALS.setdefault('vdo', lambda: P.Plain(d={'k': [1]}, t=([2], 3)))
READS = ['get_data', 'getitem', 'direct', 'metadata', 'metadata-alone']
SECONDS = ['same-object', 'same-cassette-refetch', 'fresh-cassette']


def bounds(tier):
    return {'shapes': len(SHAPES), 'read_paths': len(READS) + 5, 'second_observations': len(SECONDS) + 1, 'cassettes': cassettes.KINDS}


def gen_cases(tier, seed):
    for cas in cassettes.KINDS:
        for shape in SHAPES:
            for wrap in (False, True):
                for read, second in itertools.product(READS, SECONDS):
                    if read in ('metadata-alone',) and second == 'same-object':
                        continue
                    yield {'k': 'store', 'cas': cas, 'shape': shape, 'wrap': wrap, 'read': read, 'second': second}
            for fn in ('in_a', 'in_static', 'in_hdl', 'in_prop'):
                yield {'k': 'inject', 'cas': cas, 'shape': shape, 'fn': fn}
            for fn in ('in_a', 'out_a', 'in_hdl'):
                yield {'k': 'copy-on', 'cas': cas, 'shape': shape, 'fn': fn}
                if cas == 'mem':
                    yield {'k': 'copy-on', 'cas': cas, 'shape': shape, 'fn': fn, 'late_force': True}     # rate 0, forced only after the capture
                    yield {'k': 'copy-on', 'cas': cas, 'shape': shape, 'fn': fn, 'same_name': True}      # another class with the same name, no copy
            yield {'k': 'playback', 'cas': cas, 'shape': shape}
        for fn in ('in_a', 'out_a'):
            yield {'k': 'exception', 'cas': cas, 'fn': fn}


def _first(rec, read, key, fetcher, rid):
    if read == 'get_data':
        return rec.get_data(key)
    if read == 'getitem':
        return rec[key]
    if read == 'direct':
        return rec.get_data_direct(key)
    if read == 'metadata':
        return rec.get_metadata()
    if read == 'metadata-alone':
        return fetcher.get_recording_metadata(rid)


def run_case(case):
    box = cassettes.Box(case['cas'])
    try:
        return {'store': _store, 'inject': _inject, 'copy-on': _copy_on, 'playback': _playback, 'exception': _exception}[case['k']](case, box)
    finally:
        box.close()


def _alias(a, b):
    ia = {id(n) for n in mutable_nodes(a)}
    return any(id(n) in ia for n in mutable_nodes(b))


def _store(case, box):
    v = P.mkval(case['shape'])
    pristine = canon({'value': P.mkval(case['shape'])} if case['wrap'] else P.mkval(case['shape']))
    c = box.cassette
    r = c.create_new_recording('Op')
    r.set_data('k', {'value': v} if case['wrap'] else v)
    r.set_data('other', [1, 2])
    r.add_metadata({'m': P.mkval(case['shape']), '_tape_recorder_recording_duration': 1})
    c.save_recording(r)
    fetcher = box.fresh()
    rec = fetcher.get_recording(r.id)
    read = case['read']
    is_meta = read.startswith('metadata')
    pristine_meta = canon({'m': P.mkval(case['shape']), '_tape_recorder_recording_duration': 1})
    first = _first(rec, read, 'k', fetcher, r.id)
    nodes = len(mutable_nodes(first))
    P.mutate(first, every=True)
    second_kind = case['second']
    viols = []
    if second_kind == 'same-object':
        if read in ('direct', 'metadata'):   # the live objects of ONE recording object: only get_data's copy contract applies
            second = rec.get_data('k') if read == 'direct' else None
            if read == 'direct':
                # get_data_direct may return the stored object; mutating it is the caller's responsibility -> nothing demanded
                second = None
        else:
            second = _first(rec, read, 'k', fetcher, r.id)
    else:
        f2 = fetcher if second_kind == 'same-cassette-refetch' else box.fresh()
        rec2 = f2.get_recording(r.id)
        second = f2.get_recording_metadata(r.id) if read == 'metadata-alone' else (rec2.get_metadata() if is_meta else rec2.get_data('k'))
    if second is not None:
        exp = pristine_meta if is_meta else pristine
        if canon(second) != exp:
            viols.append(viol('%s:%s:mutation-visible' % (read, second_kind),
                              'a mutation made through the first observation is visible in the second (%s, shape %s, cassette %s)' % (second_kind, case['shape'], case['cas']),
                              exp, canon(second)))
        elif _alias(first, second):
            viols.append(viol('%s:%s:shared-object' % (read, second_kind), 'first and second observation share a mutable object', 'independent graphs', 'aliased'))
    return dict(viol=viols, obs=repr((read, second_kind, canon(second) if second is not None else None)), nontrivial=nodes > 0 and second is not None)


def _inject(case, box):
    """The replayed code mutates an injected input; a later request of the same input and a second replay see the pristine value."""
    fn = case['fn']
    call = {'fn': fn, 'ret': case['shape']}
    if fn != 'in_prop':
        call['a'] = ['x1']
    prog1 = {'steps': [call]}
    r = P.record(prog1, inner=box.cassette)
    if ('save', r.rec_id) not in r.log or not P.faithful(r.env.spy.saved_objs[r.rec_id]):
        return dict(viol=[], obs='outside-faithful-domain')
    prog2 = {'steps': [dict(call), {'do': 'mut'}, dict(call), {'do': 'mut'}, dict(call)]}
    R = P.ref(prog1)
    E = P.ref_replay(R, prog2)
    viols = []
    env2 = P.Env(inner=box.fresh())
    for rep in (1, 2):
        pl = P.replay(env2, r.rec_id, prog2)
        if pl.playback is None:
            viols.append(viol('inject:raised', 'replay raised', 'Playback', repr(pl.exc)))
            break
        if P.obs_canon(pl.obs) != E['obs']:
            viols.append(viol('inject:%s:replay-%d' % (fn, rep), 'replayed code mutated an injected input and a later read observed the mutation (replay %d, shape %s)' % (rep, case['shape']),
                              E['obs'], P.obs_canon(pl.obs)))
        if P.canon(pl.playback.original_recording.get_data(next(k for k in pl.playback.original_recording.get_all_keys() if k.startswith('input')))) != \
                P.canon(box.fresh().get_recording(r.rec_id).get_data(next(k for k in pl.playback.original_recording.get_all_keys() if k.startswith('input')))):
            viols.append(viol('inject:%s:played-recording-altered' % fn, 'the recording object that was played was altered by the replayed code', 'pristine', 'altered'))
    return dict(viol=viols, obs=repr(('inject', fn, case['shape'])), nontrivial=True, evals=2)


def _copy_on(case, box):
    fn = case['fn']
    prog = {'params': {'copy': True}, 'steps': [{'fn': fn, 'a': ['x1'], 'ret': case['shape']}, {'do': 'mut'}, {'fn': 'out_b', 'a': ['x2']}]}
    if case.get('late_force'):
        prog = {'params': {'copy': True, 'rate': 0.0}, 'steps': [{'fn': fn, 'a': ['x1'], 'ret': case['shape']}, {'do': 'force'}, {'do': 'mut'}, {'fn': 'out_b', 'a': ['x2']}]}
    if case.get('same_name'):
        env = P.Env(inner=box.cassette, name='Op', params={'copy': True})
        P.RT.reset()
        P.build_class(env.tr, 'Op', 'inst', None, {'copy': False}, env.funcs)   # an unrelated class that happens to have the same name
        P.THIS.Op = env.cls
        r = P.record(prog, env=env)
    else:
        r = P.record(prog, inner=box.cassette)
    if ('save', r.rec_id) not in r.log:
        return dict(viol=[viol('harness:not-saved', 'not saved', 'saved', r.log)], obs='unsaved')
    rec = box.fresh().get_recording(r.rec_id)
    key = next(k for k in rec.get_all_keys() if (k.startswith('input') if fn != 'out_a' else k.endswith('#1.result') and ' oa ' in k))
    got = rec.get_data(key)
    exp = {'value': {'w': P.mkval(case['shape'])} if fn == 'in_hdl' else P.mkval(case['shape'])}
    viols = []
    if canon(got) != canon(exp) and P.faithful(r.env.spy.saved_objs[r.rec_id]):
        viols.append(viol('copy-on:%s:captured-value-follows-later-mutation' % fn,
                          'with copy-on-interception the recorded value must be the value at capture time (shape %s)' % case['shape'], canon(exp), canon(got)))
    return dict(viol=viols, obs=repr(('copy-on', canon(got))), nontrivial=True)


def _playback(case, box):
    """Mutating Playback.recorded_outputs / values read from original_recording does not show in a second play()."""
    prog = {'steps': [{'fn': 'out_a', 'a': [case['shape']], 'k': {'z': case['shape']}, 'ret': case['shape']}]}
    r = P.record(prog, inner=box.cassette)
    if ('save', r.rec_id) not in r.log or not P.faithful(r.env.spy.saved_objs[r.rec_id]):
        return dict(viol=[], obs='outside-faithful-domain')
    env2 = P.Env(inner=box.fresh())
    al = P.all_aliases()
    viols = []
    maps = []
    kept = None
    for rep in (1, 2, 3):
        pl = P.replay(env2, r.rec_id, prog)
        if rep == 1:
            kept = (pl.playback, P.outputs_map(pl.playback.playback_outputs, al), len(pl.playback.playback_outputs))
        elif kept is not None and (P.outputs_map(kept[0].playback_outputs, al) != kept[1] or len(kept[0].playback_outputs) != kept[2]):
            viols.append(viol('playback:earlier-result-changed-by-later-replay', 'a Playback object kept from an earlier play() changed when the same recorder replayed again',
                              kept[1], P.outputs_map(kept[0].playback_outputs, al)))
            kept = None
        maps.append((P.outputs_map(pl.playback.recorded_outputs, al), P.obs_canon(pl.obs)))
        before = {k: P.canon(pl.playback.original_recording.get_data(k)) for k in pl.playback.original_recording.get_all_keys()}
        for o in pl.playback.recorded_outputs:
            P.mutate(o.value, every=True)
        after = {k: P.canon(pl.playback.original_recording.get_data(k)) for k in pl.playback.original_recording.get_all_keys()}
        if before != after:
            viols.append(viol('playback:recorded_outputs-alias-the-played-recording', 'mutating Playback.recorded_outputs changed what Playback.original_recording hands out',
                              'independent copies', sorted(k for k in before if before[k] != after[k])))
        for k in list(pl.playback.original_recording.get_all_keys()):
            P.mutate(pl.playback.original_recording.get_data(k), every=True)
        if rep == 2:
            P.mutate(pl.playback.original_recording.get_metadata(), every=False)
    if maps[0] != maps[1] or maps[0] != maps[2]:
        viols.append(viol('playback:later-replay-sees-mutation', 'mutating what a Playback handed out changed what a later play() of the same recording observes',
                          maps[0], maps[1] if maps[0] != maps[1] else maps[2]))
    return dict(viol=viols, obs=repr(maps[0])[:500], nontrivial=True, evals=3)


def _exception(case, box):
    fn = case['fn']
    call = {'fn': fn, 'a': ['x1'], 'exc': 'E1'}
    r = P.record({'steps': [call]}, inner=box.cassette)
    if ('save', r.rec_id) not in r.log:
        return dict(viol=[viol('harness:not-saved', 'not saved', 'saved', r.log)], obs='unsaved')
    env2 = P.Env(inner=box.fresh())
    viols = []
    if fn == 'in_a':
        prog2 = {'steps': [dict(call), {'do': 'mut'}, dict(call)]}
        for rep in (1, 2):
            pl = P.replay(env2, r.rec_id, prog2)
            if P.obs_canon(pl.obs) != (('exc', 'E1'), ('exc', 'E1')):
                viols.append(viol('exception:mutation-visible:replay-%d' % rep, 'a recorded exception caught and mutated by the replayed code was handed out again, mutated',
                                  (('exc', 'E1'), ('exc', 'E1')), P.obs_canon(pl.obs)))
    else:
        prog2 = {'steps': [dict(call), {'do': 'mut'}]}
        for rep in (1, 2):
            pl = P.replay(env2, r.rec_id, prog2)
            if P.obs_canon(pl.obs) != (('exc', 'E2' if False else 'E1'),):
                viols.append(viol('exception:mutation-visible:replay-%d' % rep, 'second replay observed the exception mutated by the first', (('exc', 'E1'),), P.obs_canon(pl.obs)))
    return dict(viol=viols, obs=repr(('exception', fn)), nontrivial=True, evals=2)
