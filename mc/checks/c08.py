"""C08 - every recording gets exactly one, correctly attributed verdict (real Equalizer on virtual multiprocessing)."""
from __future__ import annotations

import itertools

from mc import eqspace as Q, vmp
from mc.core import viol

ID = 'C08'
LEVEL = 'model_checking'
RECHECK = 10   # cases are whole schedule explorations: fewer of them are re-executed for the determinism check
CHUNK = 4
RULE = ('the real Equalizer (run_comparison, worker loop, timeout / kill / recycle code) on virtual multiprocessing and virtual time: every '
        'behaviour vector over {equal, different, player raises, extractor raises, comparator raises, bare status, worker exits, hangs, '
        'answers just after the parent gave up, hangs trapping SIGTERM, replay spawning a child process} up to the length bound x recycle '
        'rate {1,2,5} x keep-results x timeout {0,2}, under EVERY schedule of parent and workers up to the preemption bound (scheduling '
        'points at every queue / event / process / kill operation); in-process mode for the vectors it can run; thorough: conformance of '
        'the virtual layer against real multiprocessing. states = distinct (verdict sequence, workers alive, workers started) outcomes.')
ASSUMPTIONS = ['a virtual process shares no rebinding with its parent after start (shallow copy of the Equalizer at fork); handles (queues, events) are shared',
               'code steps take no time; virtual time advances only when the parent poll expires with no worker step enabled',
               'SIGKILL of a worker that is polling a queue poisons that queue for later readers (worst case of multiprocessing.Queue)']
B = ['equal', 'different', 'player_raises', 'extractor_raises', 'comparator_raises', 'bare_status', 'exit', 'hang', 'late', 'hang_traps_sigterm', 'spawns_child',
     'late_unkillable', 'player_raises_badstr']
CONFIGS = [{'recycle': r, 'keep': k, 'timeout': t} for r in (1, 2, 5) for k in (False, True) for t in (0, 2)] + [{'recycle': 2, 'keep': False, 'timeout': 0.5},
                                                                                                                 {'recycle': 2, 'keep': False, 'timeout': 1.5}]


def bounds(tier):
    return {'behaviours': B, 'vector_len_full_product': 2 if tier == 'quick' else 3, 'vector_len_reduced_configs': 3 if tier == 'quick' else 4,
            'configs': len(CONFIGS), 'preemption_bound': {'len<=2': 2, 'longer': 1 if tier == 'quick' else 2}}


def gen_cases(tier, seed):
    full = 2 if tier == 'quick' else 3
    for n in range(1, full + 1):
        for vec in itertools.product(B, repeat=n):
            for ci in range(len(CONFIGS)):
                if tier == 'quick' and n == 2 and CONFIGS[ci]['keep'] and CONFIGS[ci]['recycle'] != 2:
                    continue   # quick: keep-results only matters in the parent's re-extraction; one recycle rate suffices at length 2
                yield {'vec': list(vec), 'cfg': ci, 'bound': 2, 'mode': 'dedicated'}
    n = full + 1
    # the longest vectors use one representative of the behaviours that never touch the worker protocol differently
    B_long = [b for b in B if b not in ('extractor_raises', 'bare_status', 'spawns_child')] if tier == 'quick' else B
    for vec in itertools.product(B_long, repeat=n):
        if tier == 'thorough' and len(set(vec) & set(Q.NEEDS_WORKER)) == 0 and len(set(vec)) > 2:
            continue
        for ci in ((2, 11) if tier == 'quick' else (2, 7, 11)):
            yield {'vec': list(vec), 'cfg': ci, 'bound': 1 if tier == 'quick' else 2, 'mode': 'dedicated'}
    # in-process mode: all vectors it can run (no behaviour that needs a worker process)
    inproc = [b for b in B if b not in Q.NEEDS_WORKER]
    for n in range(1, 4):
        for vec in itertools.product(inproc, repeat=n):
            for keep in (False, True):
                yield {'vec': list(vec), 'cfg': 0 if not keep else 2, 'mode': 'inprocess'}
    if tier == 'thorough':
        real = [b for b in B if b not in ('late', 'hang_traps_sigterm', 'spawns_child', 'late_unkillable', 'player_raises_badstr')]
        for vec in itertools.product(real, repeat=3):
            if sum(1 for b in vec if b == 'hang') > 1:
                continue
            yield {'vec': list(vec), 'cfg': 4, 'mode': 'real-conformance'}


def heavy(case):
    return case['mode'] == 'real-conformance'


def run_case(case):
    vec = tuple(case['vec'])
    cfg = CONFIGS[case['cfg']]
    if case['mode'] == 'dedicated':
        ex, viols, outcomes = Q.explore_config(vec, cfg, case['bound'], want=('verdicts',))
        return dict(viol=viols, obs=repr(sorted(outcomes))[:1500], states=list(outcomes), nontrivial=any(b != 'equal' for b in vec) and len(vec) > 1,
                    ntkey=repr(case), evals=ex['executions'], transitions=ex['executions'] * max(1, ex['max_points']),
                    caps=['execution cap hit %s' % case] if ex['capped'] else [], extra={'schedules': ex['executions']})
    if case['mode'] == 'inprocess':
        s, res = vmp.run_equalizer(vec, [], dedicated=False, timeout=cfg['timeout'], recycle=cfg['recycle'], keep=cfg['keep'])
        viols = Q.judge_verdicts(vec, res, cfg['keep'], 'in-process') if res['ok'] else [viol('inprocess:did-not-finish', 'in-process run did not finish', 'finishes', res['parent_exc'])]
        if res['procs']:
            viols.append(viol('inprocess:started-a-worker', 'in-process mode must not start worker processes', 0, res['procs']))
        return dict(viol=viols, obs=repr([(o['id'], o['status']) for o in res['out']]), nontrivial=len(vec) > 1, transitions=len(vec))
    return real_conformance(vec, cfg)


def real_conformance(vec, cfg):
    """The same vector on REAL multiprocessing (fork, timeout 1 s) must give the verdict sequence of the virtual run."""
    import subprocess
    import sys
    import json
    import os
    code = 'from mc.checks import c08; c08.real_child()'
    env = dict(os.environ)
    s, res = vmp.run_equalizer(vec, [], dedicated=True, timeout=1, recycle=cfg['recycle'], keep=False)
    virt = [[o['id'], o['status'], o['playback']] for o in res['out']]
    real = None
    for attempt in range(3):   # real time is not owned: a disagreement must persist over three runs before it is reported
        out = subprocess.run([sys.executable, '-c', code, json.dumps(list(vec))], capture_output=True, text=True, env=env, timeout=180,
                             cwd=os.path.dirname(os.path.dirname(os.path.dirname(os.path.abspath(__file__)))))
        if out.returncode != 0:
            continue
        real = json.loads(out.stdout.strip().splitlines()[-1])
        if real['verdicts'] == virt and not real['children_left']:
            break
    if real is None:
        return dict(viol=[viol('conformance:real-run-failed', 'real multiprocessing run failed', 'verdicts', out.stderr[-500:])], obs='failed')
    viols = []
    if real['verdicts'] != virt:
        viols.append(viol('conformance:virtual-layer-disagrees-with-real-multiprocessing', 'verdict sequence of vector %s: virtual model vs real processes' % (list(vec),), virt, real['verdicts']))
    if real['children_left']:
        viols.append(viol('conformance:real-children-left', 'real worker processes left behind', [], real['children_left']))
    return dict(viol=viols, obs=repr(real['verdicts']), nontrivial=True, evals=2)


def real_child():
    import json
    import logging
    import multiprocessing as mp
    import sys
    import time
    logging.disable(logging.CRITICAL)
    from mc import core
    core.bind_repo()
    from playback.studio.equalizer import Equalizer, EqualityStatus, ComparatorResult, CompareExecutionConfig
    vec = json.loads(sys.argv[1])
    ids = ['r%d' % i for i in range(len(vec))]
    beh = dict(zip(ids, vec))

    def player(rid):
        b = beh[rid]
        if b == 'player_raises':
            raise ValueError('player fails for ' + rid)
        if b == 'exit':
            sys.exit(1)
        if b == 'hang':
            time.sleep(60)
        return vmp.FakePlayback(rid)

    def extractor(outputs):
        if beh[outputs[1]] == 'extractor_raises':
            raise KeyError('extractor fails')
        return outputs

    def comparator(rec, play):
        b = beh[rec[1]]
        if b == 'comparator_raises':
            raise TypeError('comparator fails')
        if b == 'bare_status':
            return EqualityStatus.Fixed
        return ComparatorResult(EqualityStatus.Different if b == 'different' else EqualityStatus.Equal, rec[1])
    eq = Equalizer(iter(ids), player, extractor, comparator, compare_execution_config=CompareExecutionConfig(
        compare_in_dedicated_process=True, compare_process_recycle_rate=2, compare_process_timeout=1))
    out = [[c.recording_id, c.comparator_status.equality_status.name, c.playback.original_recording.id if c.playback is not None else None] for c in eq.run_comparison()]
    time.sleep(0.3)
    left = [p.pid for p in mp.active_children()]
    for p in mp.active_children():
        p.kill()
    print(json.dumps({'verdicts': out, 'children_left': left}))


def replay_one(case, violation):
    return Q.replay_schedule(tuple(case['vec']), CONFIGS[case['cfg']], ('drain',), violation['schedule'], ('verdicts',))
