"""Threaded part of C04: worker-thread programs under every interleaving up to the preemption bound on the real recorder."""
from __future__ import annotations

from mc import progs as P, sched as S, threads as T
from mc.core import HarnessError, viol

A1 = {'fn': 'in_a', 'a': ['x1'], 'ret': 'vlst'}
B2 = {'fn': 'in_b', 'a': ['x2'], 'ret': 'vdct'}
O1 = {'fn': 'out_a', 'a': ['x1'], 'ret': 'vtup'}
OB = {'fn': 'out_b', 'a': ['x1'], 'ret': 'v1'}
SHAPES = {
    'T1': [[A1], [B2]],
    'T2': [[dict(A1, fault='key')], [B2]],
    'T3': [[O1], [{'fn': 'in_hdl', 'a': ['x2'], 'ret': 'vs', 'fault': 'handler'}]],
    'T4': [[A1, O1], [dict(B2, pre=[{'do': 'discard'}])]],
    'T5': [[dict(A1, pre=[{'do': 'force'}])], [dict(B2, fault='key')]],
    'T6': [[{'fn': 'out_hdl', 'a': ['x1'], 'ret': 'v0', 'fault': 'handler'}], [OB]],
    'T7': [[dict(A1, fault='key')], [dict(B2, fault='key')]],
    'T8': [[dict(A1, exc='E1')], [dict(B2, pre=[{'do': 'discard'}])]],
    'T9': [[O1, O1], [dict(B2, fault='key'), OB]],
    'T10': [[O1], [dict(O1, a=['x2'])]],                          # the SAME output alias from two workers (ordinals may race; transparency may not)
    'T11': [[O1, dict(A1, fault='key')], [dict(O1, a=['x2']), B2]],
}
QUICK = ['T1', 'T2', 'T3', 'T4', 'T5', 'T7', 'T8']


def gen_cases(tier, seed):
    # quick: all shapes at opcode granularity with bound 1 and at line granularity with bound 2; thorough: + copy-on, opcode granularity at bound 2
    for n in SHAPES:
        yield {'engine': 'sched', 'shape': n, 'copy': False, 'bound': 1, 'fine': True, 'shard': [0, 1]}
        if True:
            for sh in range(8):
                yield {'engine': 'sched', 'shape': n, 'copy': False, 'bound': 2, 'fine': False, 'shard': [sh, 8]}
        if tier == 'thorough':
            for sh in range(64):   # three preemptions at line granularity
                yield {'engine': 'sched', 'shape': n, 'copy': False, 'bound': 3, 'fine': False, 'shard': [sh, 64]}
            yield {'engine': 'sched', 'shape': n, 'copy': True, 'bound': 1, 'fine': True, 'shard': [0, 1]}
            for sh in range(16):
                yield {'engine': 'sched', 'shape': n, 'copy': False, 'bound': 2, 'fine': True, 'shard': [sh, 16]}


def prog_of(case):
    p = {'steps': [{'do': 'par', 'threads': SHAPES[case['shape']]}, {'fn': 'out_b', 'a': ['xs'], 'ret': 'v1'}]}
    if case['copy']:
        p['params'] = {'copy': True}
    return p


def run_case(case):
    from mc.checks import c04
    prog = prog_of(case)

    def run_one(prefix):
        return T.record_under(prog, prefix, fine=case['fine'])
    ex = S.explore(run_one, case['bound'], max_execs=120000, shard=tuple(case['shard']))
    viols = []
    outcomes = set()
    for choices, res in ex['results']:
        if not res['ok'] or res['r'] is None:
            v = viol('liveness:%s' % ('deadlock' if res['deadlock'] else 'step-horizon'), 'threaded operation did not terminate', 'terminates', res['thread_errors'])
            vs = [v]
        else:
            P.RT.spawn = lambda fns: [f() for f in fns]   # the undecorated twin runs its workers one after the other
            j = c04.judge({'mods': [1], 'glob': 'threads'}, prog, res['r'], res['end'], {})
            vs = j['viol']
            if res['thread_errors']:
                vs.append(viol('harness-thread-died', 'a harness thread died', [], res['thread_errors']))
            outcomes.add(j['obs'])
        for v in vs:
            if not any(x['sig'] == v['sig'] for x in viols):
                v['schedule'] = choices
                viols.append(v)
    if viols:
        s2, res2 = T.record_under(prog, viols[0]['schedule'], fine=case['fine'])
        P.RT.spawn = lambda fns: [f() for f in fns]
        again = c04.judge({'mods': [1], 'glob': 'threads'}, prog, res2['r'], res2['end'], {})['viol'] if res2['r'] is not None else []
        if res2['ok'] and viols[0]['sig'] not in [v['sig'] for v in again]:
            raise HarnessError('schedule did not reproduce its violation: nondeterminism not owned')
    return dict(viol=viols, obs=repr(sorted(outcomes))[:2000], states=list(outcomes), nontrivial=ex['executions'] > 1, ntkey=repr(case),
                evals=ex['executions'], transitions=ex['executions'] * max(1, ex['max_points']),
                caps=['execution cap hit for %s' % case] if ex['capped'] else [],
                extra={'threaded_schedules': ex['executions'], 'max_threaded_points': ex['max_points']})


def replay_one(case, violation):
    from mc.checks import c04
    prog = prog_of(case)
    S.explore(lambda p: T.record_under(prog, p, fine=case['fine']), 0, max_execs=1)
    s1, r1 = T.record_under(prog, violation['schedule'], fine=case['fine'])
    print('what the workers observed:', P.obs_canon(r1['r'].obs) if r1['r'] is not None else None, 'cassette:', r1['r'].log if r1['r'] is not None else None)
    if r1['r'] is None:
        return [viol('liveness:%s' % ('deadlock' if r1['deadlock'] else 'step-horizon'), 'threaded operation did not terminate', 'terminates', r1['thread_errors'])]
    P.RT.spawn = lambda fns: [f() for f in fns]
    return c04.judge({'mods': [1], 'glob': 'threads'}, prog, r1['r'], r1['end'], {})['viol']
