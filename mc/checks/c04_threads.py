"""Threaded part of C04 (filled in once the scheduler engine exists)."""


def gen_cases(tier, seed):
    return []


def run_case(case):
    raise NotImplementedError
