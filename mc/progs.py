"""Recorder program space: programs are data, interpreted by operation classes built around a real TapeRecorder.

 * `record(prog, ...)`   runs the program as a decorated operation on the real recorder (recording mode)
 * `replay(env, id, prog)` replays a stored recording with the same / an edited program (bodies return Orig markers + journal)
 * `twin(prog)`           runs the same program with identity decorators (the undecorated service)
 * `ref(prog, ...)`       the boring reference interpreter (DESIGN appendix A) - knows nothing about key text
"""
from __future__ import annotations

import sys
import threading
from collections import Counter

from mc.refeq import canon

THIS = sys.modules[__name__]


# ---------------------------------------------------------------------------------------------- values
class Plain(object):
    def __init__(self, **kw):
        self.__dict__.update(kw)


class Plain2(object):
    def __init__(self, **kw):
        self.__dict__.update(kw)


class Unencodable(object):
    """jsonpickle cannot encode this (same idiom as the repository's own tests)."""

    def __getstate__(self):
        raise RuntimeError('unencodable by design')

    def __deepcopy__(self, memo):  # copy.deepcopy (harness side) must work; only the serializer is refused
        return self


class Orig(object):
    """What an intercepted body returns when it is executed during a replay (only legal under run-original)."""

    def __init__(self, fn):
        self.fn = fn


class Interrupt(BaseException):
    pass


class E1(Exception):
    pass


class E2(Exception):
    pass


class UnserExc(Exception):
    def __getstate__(self):
        raise RuntimeError('unserializable exception')


class FlexExc(Exception):
    """One exception TYPE whose instances may or may not be serializable (args[0] == 'bad' -> not)."""

    def __getstate__(self):
        if self.args and self.args[0] == 'bad':
            raise RuntimeError('this instance cannot be serialized')
        return dict(self.__dict__)


EXC = {'E1': E1, 'E2': E2, 'Unser': UnserExc, 'KeyError': KeyError, 'FlexBad': (lambda m: FlexExc('bad')), 'FlexGood': (lambda m: FlexExc('good'))}


def _lib_exc():
    from playback.exceptions import RecordingKeyError
    EXC['RKE'] = RecordingKeyError


try:
    _lib_exc()
except ImportError:
    pass


def _shared():
    s = [1, 2]
    return {'p': s, 'q': s}


VALS = {
    'v0': lambda: 0, 'v1': lambda: 1, 'vneg': lambda: -7, 'vf': lambda: 2.5, 'vt': lambda: True, 'vn': lambda: None,
    'vs': lambda: 'a', 'vq': lambda: 'q"uo\'te\\', 'vu': lambda: u'\xe9✓', 've': lambda: '', 'vb': lambda: b'\x00\xffb',
    'vtup': lambda: (1, 'x'), 'vlst': lambda: [1, [2, 3]], 'vdct': lambda: {'k': [1], 'z': None}, 'vset': lambda: {1, 2},
    'vobj': lambda: Plain(a=1, b=[2]), 'vsh': _shared, 'vel': lambda: [], 'ved': lambda: {},
    # unique markers (C02: a value recorded for a different call must be recognisable)
    'u1': lambda: ['u', 1], 'u2': lambda: ['u', 2], 'u3': lambda: ['u', 3], 'u4': lambda: ['u', 4],
    'u5': lambda: ['u', 5], 'u6': lambda: ['u', 6],
    # arguments
    'x1': lambda: 1, 'x2': lambda: 2, 'xs': lambda: 'k', 'xd': lambda: {'b': 1, 'a': [2]}, 'xt': lambda: (1, 't'),
    'xb': lambda: b'\x01', 'xn': lambda: None, 'xl': lambda: [1, 2], 'xt2': lambda: (1, 2), 'xset': lambda: {1, 2},
    'x1f': lambda: 1.0, 'xtrue': lambda: True, 'xo1': lambda: Plain(a=1), 'xo2': lambda: Plain2(a=1), 'vtl': lambda: ([1, 2], 3), 'vfl': lambda: (Plain(a=[1]), 'x'),
    'bad': lambda: Unencodable(),
    # an argument whose text looks like the framework's own keys
    'xop': lambda: 'output: _tape_recorder_operation #1.output result',
}


def mkval(name):
    return VALS[name]()


DEFAULT_FUNCS = {
    'in_a': {'t': 'in', 'style': 'inst', 'alias': 'ia'},
    'in_b': {'t': 'in', 'style': 'inst', 'alias': 'ib'},
    'in_static': {'t': 'in', 'style': 'static', 'alias': 'is'},
    'in_prop': {'t': 'in', 'style': 'prop', 'alias': 'ip'},
    'in_res': {'t': 'in', 'style': 'inst', 'alias': 'ir_{id}', 'resolver': True},
    'in_cap': {'t': 'in', 'style': 'inst', 'alias': 'ic', 'capture': [[1, 'x']]},
    'in_cap0': {'t': 'in', 'style': 'inst', 'alias': 'i0', 'capture': []},
    'in_hdl': {'t': 'in', 'style': 'inst', 'alias': 'ih', 'handler': True},
    'in_fb': {'t': 'in', 'style': 'inst', 'alias': 'if', 'fallback': ['ia']},
    'out_a': {'t': 'out', 'style': 'inst', 'alias': 'oa'},
    'out_b': {'t': 'out', 'style': 'inst', 'alias': 'ob'},
    'out_static': {'t': 'out', 'style': 'static', 'alias': 'os'},
    'out_hdl': {'t': 'out', 'style': 'inst', 'alias': 'oh', 'handler': True},
}


# ---------------------------------------------------------------------------------------------- runtime
class _RT(object):
    def __init__(self):
        self.tls = threading.local()
        self.reset()

    def reset(self):
        self.mode = 'record'
        self.journal = []   # body executions
        self.calls = []     # interception calls made by the interpreter
        self.memo = {}      # input determinism: (fn, canon args) -> value name
        self.clock = 1000.0
        self.tr = None
        self.funcs = DEFAULT_FUNCS
        self.last_obs = None
        self.last_end = None
        self.ext_override = None
        self.spawn = None   # set by the scheduler harness for 'par' steps
        self.pworker = None
        self.tls = threading.local()

    @property
    def stack(self):
        if not hasattr(self.tls, 'stack'):
            self.tls.stack = []
        return self.tls.stack


RT = _RT()


class WrapIn(object):
    def prepare_input_for_recording(self, interception_key, result, args, kwargs):
        if RT.stack and RT.stack[-1]['step'].get('fault') == 'handler':
            raise ValueError('input handler fails by design')
        if RT.stack and RT.stack[-1]['step'].get('hnone'):
            return None   # a handler may legitimately have nothing to keep for a call
        return {'w': result}

    def restore_input_from_recording(self, recorded_data, args, kwargs):
        return None if recorded_data is None else recorded_data['w']


class WrapOut(object):
    def prepare_output_for_recording(self, interception_key, args, kwargs):
        if RT.stack and RT.stack[-1]['step'].get('fault') == 'handler':
            raise ValueError('output handler fails by design')
        return {'wa': list(args), 'wk': kwargs}

    def restore_output_from_recording(self, recorded_data):
        return recorded_data


def _body(fname, args, kw, target):
    rec = RT.stack[-1]
    step = rec['step']
    assert step['fn'] == fname, (step, fname)
    ent = {'fn': fname, 'args': args, 'kw': kw, 'mode': RT.mode, 'thread': threading.current_thread().name}
    RT.journal.append(ent)
    rec.setdefault('bodies', []).append(ent)
    ent['nested'] = []
    for act in step.get('pre', ()):
        _perform(target, act, ent['nested'])
    if RT.mode == 'replay':
        v = mkval(step['orig_ret']) if 'orig_ret' in step else Orig(fname)   # what the real code returns when it is run after all
        ent['ret'] = v
        return v
    if step.get('intr'):
        e = Interrupt()
        ent['exc'] = e
        raise e
    if 'exc' in step:
        e = EXC[step['exc']]('boom')
        e.payload = [1]
        ent['exc'] = e
        raise e
    if step.get('fault') in ('copy', 'unser'):
        v = Unencodable()
    else:
        name = step.get('ret', 'v1')
        if RT.funcs[fname]['t'] == 'in':  # an input is a function of alias + captured arguments (property assumption)
            k = (fname, step.get('ident'), canon(_captured(RT.funcs[fname], args, kw)))
            name = RT.memo.setdefault(k, name)
        v = mkval(name)
    ent['ret'] = v
    return v


def _captured(spec, args, kw):
    cap = spec.get('capture')
    if cap is None:
        return (list(args), sorted(kw.items()))
    a, k = [], {}
    for pos, name in cap:
        if name in kw:
            k[name] = kw[name]
        elif pos is not None and pos - 1 < len(args):
            a.append(args[pos - 1])
    return (a, sorted(k.items()))


class NullRecorder(object):
    """Identity decorators: the undecorated service (twin)."""

    def __getattr__(self, name):
        if name in ('intercept_input', 'static_intercept_input', 'intercept_output', 'static_intercept_output', 'operation',
                    'class_operation'):
            return lambda *a, **k: (lambda f: f)
        raise AttributeError(name)

    def discard_recording(self):
        pass

    def force_sample_recording(self):
        pass

    def disable_recording(self):
        pass


EXTRACTORS = {
    'dict': lambda: {'user_k': 1, 'user_s': 'ab'},
    'raise': None,
    'nonstr': lambda: {'tenant': 'acme', 7: 'x', 'region': 'eu'},
    'none': lambda: None, 'int': lambda: 5, 'str': lambda: 'str', 'list': lambda: [1, 2], 'partial': lambda: [('k', 1), 7],
}


def _extractor(kind):
    if kind is None:
        return None

    def ext(*args, **kwargs):
        RT.journal.append({'fn': '<extractor>', 'mode': RT.mode, 'args': (), 'kw': {}})
        k2 = RT.ext_override if getattr(RT, 'ext_override', None) else kind
        if k2 != kind:
            return EXTRACTORS[k2]()
        if kind == 'raise':
            raise ValueError('extractor fails by design')
        if kind == 'discard':   # user code running after the operation: must find the recorder idle already
            RT.tr.discard_recording()
            return {'user_k': 1, 'user_s': 'ab'}
        if kind == 'force':
            RT.tr.force_sample_recording()
            return {'user_k': 1, 'user_s': 'ab'}
        return EXTRACTORS[kind]()
    return ext


def _make_func(tr, CapturedArg, fname, spec):
    style = spec['style']
    static = style == 'static'

    if static:
        def raw(*args, **kw):
            return _body(fname, args, kw, RT.tls.target)
    else:
        def raw(self, *args, **kw):
            return _body(fname, args, kw, self)
    raw.__name__ = fname
    if spec['t'] == 'in':
        opts = {}
        if spec.get('resolver'):
            opts['alias_params_resolver'] = (lambda *a, **k: {'id': RT.tls.ident}) if static else (lambda self, *a, **k: {'id': self.ident})
        if spec.get('handler'):
            opts['data_handler'] = WrapIn()
        if 'capture' in spec and CapturedArg is not None:
            opts['capture_args'] = [CapturedArg(p, n) for p, n in spec['capture']]
        if 'fallback' in spec:
            fb = spec['fallback']
            if isinstance(fb, dict):  # callable fallback
                lst = fb.get('call') or fb.get('call_iter')
                if 'call_iter' in fb:   # the documented callable form, answering with a one-shot iterator instead of a list
                    opts['fallback_aliases'] = lambda *a, **k: (x for x in list(lst))
                else:
                    opts['fallback_aliases'] = lambda *a, **k: list(lst)
            else:
                opts['fallback_aliases'] = list(fb)
        if spec.get('run_orig'):
            opts['run_intercepted_when_missing'] = True
        if 'missing' in spec:
            m = spec['missing']
            if isinstance(m, dict) and 'call' in m:
                rv = m['call']
                opts['value_when_missing'] = lambda *a, **k: mkval(rv)
            else:
                opts['value_when_missing'] = mkval(m)
        dec = (tr.static_intercept_input if static else tr.intercept_input)(spec['alias'], **opts)
        if style == 'prop':
            return dec(property(raw))
        f = dec(raw)
    else:
        opts = {}
        if spec.get('handler'):
            opts['data_handler'] = WrapOut()
        if 'fail' in spec:
            opts['fail_on_no_recorded_result'] = spec['fail']
        if 'default' in spec:
            opts['default_result_when_not_recorded'] = mkval(spec['default'])
        f = (tr.static_intercept_output if static else tr.intercept_output)(spec['alias'], **opts)(raw)
    return staticmethod(f) if static else f


def build_class(tr, name='Op', kind='inst', ext=None, params=None, funcs=None):
    """Builds (and registers at module level, so jsonpickle can restore the class reference) an operation class."""
    funcs = funcs or DEFAULT_FUNCS
    try:
        from playback.tape_recorder import CapturedArg
    except ImportError:
        CapturedArg = None
    ns = {fname: _make_func(tr, CapturedArg, fname, spec) for fname, spec in funcs.items()}

    def run(target, prog):
        return _interp(target if kind == 'inst' else target(), prog)
    run.__name__ = 'execute'
    if kind == 'inst':
        ns['execute'] = tr.operation(metadata_extractor=_extractor(ext))(run)
    else:
        ns['execute'] = classmethod(tr.class_operation(metadata_extractor=_extractor(ext))(run))
    ns['ident'] = 'A'
    cls = type(name, (object,), ns)
    cls.__module__ = __name__
    cls.__qualname__ = name
    setattr(THIS, name, cls)
    if params and hasattr(tr, 'recording_params'):
        from playback.tape_recorder import RecordingParameters
        tr.recording_params(RecordingParameters(
            sampling_rate=params.get('rate', 1.0), ignore_enforced_sampling=params.get('ignore', False),
            skipped=params.get('skipped', False), copy_data_on_intercepion=params.get('copy', False)))(cls)
    return cls


def _perform(target, step, obs):
    do = step.get('do')
    if do is None:
        return _call(target, step, obs)
    if do == 'discard':
        RT.tr.discard_recording()
    elif do == 'force':
        RT.tr.force_sample_recording()
    elif do == 'disable':
        RT.tr.disable_recording()
    elif do == 'tick':
        RT.clock += step['d']
    elif do == 'val':
        if obs is not None:
            obs.append(['ret', mkval(step['v'])])
    elif do == 'mutarg':   # the service mutates / re-uses an object it has just passed to an intercepted call
        last = [c for c in RT.calls if c['thread'] == threading.current_thread().name]
        if last and last[-1]['args']:
            mutate(last[-1]['args'][0], every=True)
    elif do == 'mut':
        if obs and obs[-1][0] == 'exc':
            RT.tls.last_exc.MUT = 1
            if hasattr(RT.tls.last_exc, 'payload'):
                RT.tls.last_exc.payload.append('MUT')
        elif obs:
            mutate(obs[-1][1])
    elif do == 'raise':
        RT.last_end = EXC[step['exc']]('mid')
        raise RT.last_end
    elif do == 'intr':
        RT.last_end = Interrupt()
        raise RT.last_end
    elif do == 'thr':
        sub = []

        def tmain():
            RT.tls.target = target
            try:
                for s in step['steps']:
                    _perform(target, s, sub)
            except BaseException as e:  # noqa
                sub.append(['thread-died', type(e).__name__])
        if getattr(RT, 'pworker', None) is not None:
            RT.pworker.run(tmain)   # a long-lived pool thread: its thread-local state survives between runs
        else:
            t = threading.Thread(target=tmain, name='mc-worker')
            t.start()
            t.join()
        if obs is not None:
            obs.extend(sub)
    elif do == 'par':
        outs = [[] for _ in step['threads']]

        def worker(i, steps):
            RT.tls.target = target
            try:
                for s in steps:
                    _perform(target, s, outs[i])
            except BaseException as e:  # noqa
                outs[i].append(['thread-died', type(e).__name__])
        RT.spawn([(lambda i=i, s=s: worker(i, s)) for i, s in enumerate(step['threads'])])
        if obs is not None:
            obs.append(['par', outs])
    else:
        raise ValueError(do)


def mutate(v, every=False):
    """In-place mutation of the first (or every) mutable node of v (what service code may do to a value it received)."""
    from mc.refeq import mutable_nodes
    done = False
    for n in mutable_nodes(v):
        if every:
            _mut1(n)
            done = True
            continue
        _mut1(n)
        return True
    return done


def _mut1(n):
    for n in [n]:
        if isinstance(n, list):
            n.append('MUT')
        elif isinstance(n, dict):
            n['MUT'] = 1
        elif isinstance(n, set):
            n.add('MUT')
        else:
            n.MUT = 1


def _call(target, step, obs):
    spec = RT.funcs[step['fn']]
    args = [mkval(n) for n in step.get('a', ())]
    kw = {k: mkval(n) for k, n in step.get('k', {}).items()}
    if step.get('fault') == 'key':
        args = [Unencodable()] + args
    rec = {'step': step, 'thread': threading.current_thread().name, 'args': args, 'kw': kw}
    RT.calls.append(rec)
    if 'ident' in step:
        target.ident = step['ident']
        RT.tls.ident = step['ident']
    RT.tls.target = target
    RT.stack.append(rec)
    try:
        if spec['style'] == 'prop':
            r = getattr(target, step['fn'])
        else:
            r = getattr(target, step['fn'])(*args, **kw)
        rec['ret'] = r
        if obs is not None:
            obs.append(['ret', r])
    except Exception as e:
        rec['exc'] = e
        if step.get('nocatch'):
            raise
        if obs is not None:
            obs.append(['exc', type(e).__name__ + ('+MUTATED' if getattr(e, 'MUT', None) else '')])
            RT.tls.last_exc = e
    except BaseException as e:
        rec['exc'] = e
        raise
    finally:
        RT.stack.pop()


def _interp(target, prog):
    obs = []
    RT.last_obs = obs
    RT.last_end = None
    RT.tls.target = target
    for step in prog['steps']:
        _perform(target, step, obs)
    end = prog.get('end', 'ret')
    RT.last_end = None
    if end == 'ret':
        # the result depends on every value received, but shares no object with them: jsonpickle 0.9.3 on this Python
        # mis-numbers py/id references that follow an object encoded through py/state (third-party, outside the faithful domain)
        import copy
        RT.last_end = copy.deepcopy(obs)
        return RT.last_end
    if end == 'intr':
        RT.last_end = Interrupt()
        raise RT.last_end
    RT.last_end = EXC[end.split(':')[1]]('end')
    raise RT.last_end


# ---------------------------------------------------------------------------------------------- spy cassette
def make_spy(inner, save_raises=False):
    from playback.tape_cassette import TapeCassette

    class SpyCassette(TapeCassette):
        def __init__(self):
            self.inner = inner
            self.log = []
            self.saved_objs = {}
            self.save_raises = save_raises

        def create_new_recording(self, category):
            r = self.inner.create_new_recording(category)
            self.log.append(('create', r.id, category))
            if getattr(self, 'bad_meta', False):   # a storage driver whose recording refuses metadata (framework-internal failure)
                def refuse(metadata):
                    raise IOError('recording refuses metadata by design')
                r.add_metadata = refuse
            return r

        def save_recording(self, recording):
            self.log.append(('save', recording.id))
            self.saved_objs[recording.id] = recording
            if self.save_raises:
                raise IOError('storage fails by design')
            return self.inner.save_recording(recording)

        def _save_recording(self, recording):
            raise AssertionError('not used')

        def abort_recording(self, recording=None):
            self.log.append(('abort', getattr(recording, 'id', None)))
            if getattr(self, 'abort_raises', False):
                raise IOError('storage fails to abort by design')
            return self.inner.abort_recording(recording)

        def get_recording(self, recording_id):
            self.log.append(('get', recording_id))
            return self.inner.get_recording(recording_id)

        def get_recording_metadata(self, recording_id):
            self.log.append(('get_meta', recording_id))
            return self.inner.get_recording_metadata(recording_id)

        def iter_recording_ids(self, *a, **k):
            self.log.append(('iter',))
            return self.inner.iter_recording_ids(*a, **k)

        def extract_recording_category(self, recording_id):
            return self.inner.extract_recording_category(recording_id)

        def close(self):
            self.log.append(('close',))
            return self.inner.close()
    return SpyCassette()


# ---------------------------------------------------------------------------------------------- running programs
_CURRENT_SCRIPT = [None]
_RANDOM_SEAM = []


def _install_random_seam():
    import random as _random_mod
    import playback.tape_recorder as T
    if _RANDOM_SEAM:
        return [] if _RANDOM_SEAM[0] else ['tape_recorder: no module-level name bound to random.Random']
    names = [n for n, v in vars(T).items() if v is _random_mod.Random]

    def factory(*a, **k):
        return _CURRENT_SCRIPT[0] if _CURRENT_SCRIPT[0] is not None else _random_mod.Random(*a, **k)
    for n in names:
        setattr(T, n, factory)
    import types
    for n, v in list(vars(T).items()):   # the module imported as a whole (`import random`) instead of the class
        if v is _random_mod:
            shim = types.SimpleNamespace(**{k: getattr(_random_mod, k) for k in dir(_random_mod) if not k.startswith('__')})
            shim.Random = factory
            setattr(T, n, shim)
            names.append(n)
    _RANDOM_SEAM.append(names)
    return [] if names else ['tape_recorder: no module-level name bound to random.Random']


class Env(object):
    """One recorder + spy cassette + operation class for a program family."""

    def __init__(self, inner=None, funcs=None, name='Op', kind='inst', ext=None, params=None, enabled=True, seed=None,
                 save_raises=False, draws=None, sub=False):
        from playback.tape_recorder import TapeRecorder
        from playback.tape_cassettes.in_memory.in_memory_tape_cassette import InMemoryTapeCassette
        self.inner = inner if inner is not None else InMemoryTapeCassette()
        self.spy = make_spy(self.inner, save_raises)
        self.draws = None
        if draws is not None:
            self.tr = self._scripted_recorder(draws, seed)
        else:
            _CURRENT_SCRIPT[0] = None   # (a scripted environment may have been bound before in this process)
            self.tr = TapeRecorder(self.spy, random_seed=seed)
        if enabled:
            self.tr.enable_recording()
        self.funcs = dict(DEFAULT_FUNCS)
        if funcs:
            self.funcs.update(funcs)
        self.cls = build_class(self.tr, name, kind, ext, params, self.funcs)
        if sub:  # the operation is invoked on a subclass of the decorated (and parametrised) class
            base = self.cls
            self.cls = type('Sub' + name, (base,), {})
            self.cls.__module__ = __name__
            self.cls.__qualname__ = 'Sub' + name
            setattr(THIS, 'Sub' + name, self.cls)
        self.kind = kind
        self.classes = {name: (self.cls, kind)}
        self.default_cls = name

    def _scripted_recorder(self, draws, seed):
        """A recorder whose random source is a scripted stub.  The name bound to random.Random in the recorder's module (found by
        identity) is replaced ONCE per process by a factory that hands out the stub of the environment that is currently bound
        (and a real Random(seed) otherwise), so it also works if the recorder creates its generator lazily."""
        from playback.tape_recorder import TapeRecorder

        class Scripted(object):
            def __init__(self):
                self.seq = list(draws)
                self.n = 0

            def random(self):
                self.n += 1
                return self.seq.pop(0) if self.seq else 0.5
        self.draws = Scripted()
        self.seams_missing = _install_random_seam()
        _CURRENT_SCRIPT[0] = self.draws
        return TapeRecorder(self.spy, random_seed=seed)

    def script_draws(self, draws):
        """Replaces the script of an already scripted recorder (histories)."""
        if self.draws is None:
            raise RuntimeError('recorder was not created with scripted draws')
        self.draws.seq = list(draws)
        self.draws.n = 0


    def bind(self):
        RT.tr = self.tr
        RT.funcs = self.funcs
        _CURRENT_SCRIPT[0] = self.draws

    def add_subclass(self, name, base, params=None):
        """A subclass that INHERITS the decorated operation and interceptions of `base`, with its own recording parameters."""
        from playback.tape_recorder import RecordingParameters
        basecls, kind = self.classes[base]
        c = type(name, (basecls,), {})
        c.__module__ = __name__
        c.__qualname__ = name
        setattr(THIS, name, c)
        if params is not None:
            self.tr.recording_params(RecordingParameters(
                sampling_rate=params.get('rate', 1.0), ignore_enforced_sampling=params.get('ignore', False),
                skipped=params.get('skipped', False), copy_data_on_intercepion=params.get('copy', False)))(c)
        self.classes[name] = (c, kind)
        return c

    def add_class(self, name, kind='inst', ext=None, params=None):
        c = build_class(self.tr, name, kind, ext, params, self.funcs)
        self.classes[name] = (c, kind)
        return c

    def invoke(self, prog):
        cls, kind = self.classes.get(prog.get('cls') or self.default_cls, (self.cls, self.kind))
        if cls is self.classes[self.default_cls][0]:
            cls = self.cls   # (possibly the subclass)
        call = (lambda: cls().execute(prog)) if kind == 'inst' else (lambda: cls.execute(prog))
        ctx = prog.get('call_context')
        if ctx == 'except':      # the service calls the operation while it is handling another exception (a fallback path)
            try:
                raise LookupError('primary path failed')
            except LookupError:
                return call()
        if ctx == 'finally':     # ... or from a finally block while an exception propagates
            try:
                try:
                    raise LookupError('primary path failed')
                finally:
                    r = call()
            except LookupError:
                return r
        return call()


class Run(object):
    pass


def record(prog, env=None, **envkw):
    """Runs prog as a recorded operation on the real recorder. Returns a Run."""
    fresh = env is None
    if fresh:
        env = Env(name=prog.get('cls', 'Op'), kind=prog.get('kind', 'inst'), ext=prog.get('ext'), params=prog.get('params'),
                  funcs=prog.get('funcs'), sub=prog.get('sub', False), **envkw)
        RT.reset()
    env.bind()
    RT.mode = 'record'
    j0, c0, l0 = len(RT.journal), len(RT.calls), len(env.spy.log)
    r = Run()
    r.env = env
    r.t0 = RT.clock
    try:
        r.result = env.invoke(prog)
        r.exc = None
    except BaseException as e:
        r.result = None
        r.exc = e
    r.t1 = RT.clock
    r.obs = RT.last_obs
    r.journal = RT.journal[j0:]
    r.calls = RT.calls[c0:]
    r.log = env.spy.log[l0:]
    created = [e for e in r.log if e[0] == 'create']
    r.rec_id = created[0][1] if created else None
    return r


class PersistentWorker(object):
    """One long-lived worker thread (like a pool thread of the service) that runs callables one at a time."""

    def __init__(self):
        import queue
        self.q = queue.Queue()
        self.t = threading.Thread(target=self._loop, name='mc-pool-worker', daemon=True)
        self.t.start()

    def _loop(self):
        while True:
            fn, box, ev = self.q.get()
            if fn is None:
                ev.set()
                return
            try:
                box.append(('ok', fn()))
            except BaseException as e:  # noqa
                box.append(('exc', e))
            ev.set()

    def run(self, fn):
        box, ev = [], threading.Event()
        self.q.put((fn, box, ev))
        ev.wait()
        if box[0][0] == 'exc':
            raise box[0][1]
        return box[0][1]

    def stop(self):
        ev = threading.Event()
        self.q.put((None, None, ev))
        ev.wait()


def replay(env, rec_id, prog, after=None):
    env.bind()
    RT.mode = 'replay'
    j0, c0, l0 = len(RT.journal), len(RT.calls), len(env.spy.log)
    r = Run()
    r.env = env
    RT.last_obs = None
    try:
        def pf(recording):
            env.invoke(prog)
            if after is not None:   # the playback function itself fails after running the operation
                raise after('playback function fails by design')
        r.playback = env.tr.play(rec_id, pf)
        r.exc = None
    except BaseException as e:
        r.playback = None
        r.exc = e
    r.obs = RT.last_obs
    r.journal = RT.journal[j0:]
    r.calls = RT.calls[c0:]
    r.log = env.spy.log[l0:]
    RT.mode = 'record'
    return r


def twin(prog):
    """The undecorated service: same interpreter, identity decorators."""
    saved = (RT.tr, RT.funcs, RT.mode, RT.journal, RT.calls, RT.memo, RT.clock, RT.last_obs)
    RT.journal, RT.calls, RT.memo = [], [], {}
    funcs = dict(DEFAULT_FUNCS)
    funcs.update(prog.get('funcs') or {})
    nr = NullRecorder()
    cls = build_class(nr, 'Twin_' + prog.get('cls', 'Op'), prog.get('kind', 'inst'), None, None, funcs)
    RT.tr, RT.funcs, RT.mode = nr, funcs, 'record'
    r = Run()
    try:
        r.result = cls().execute(prog) if prog.get('kind', 'inst') == 'inst' else cls.execute(prog)
        r.exc = None
    except BaseException as e:
        r.result, r.exc = None, e
    r.obs = RT.last_obs
    r.journal = RT.journal
    r.calls = RT.calls
    (RT.tr, RT.funcs, RT.mode, RT.journal, RT.calls, RT.memo, RT.clock, RT.last_obs) = saved
    return r


# ---------------------------------------------------------------------------------------------- reference interpreter
class _RefIntr(Exception):
    pass


def _exc_name(key):
    return 'FlexExc' if key.startswith('Flex') else EXC[key].__name__


def ref(prog, enabled=True, draw=None, save_raises=False, funcs=None):
    """Reference semantics of recording `prog` (single-threaded programs). See DESIGN appendix A."""
    fs = dict(DEFAULT_FUNCS)
    fs.update(prog.get('funcs') or {})
    fs.update(funcs or {})
    params = (prog.get('params') or {}) if not prog.get('sub') else {}   # parameters are registered per exact class
    R = {'started': False, 'final': 'none', 'discarded': False, 'inputs': {}, 'outputs': {}, 'results': {}, 'op': None,
         'incomplete': None, 'exc_flag': None, 'bodies': [], 'draws': 0, 'unser': False, 'forced': False, 'ticks': 0.0,
         'user_meta': None, 'obs': None, 'outcome': None}
    if not enabled or params.get('skipped'):
        started = False
    else:
        started = True
    R['started'] = started
    st = {'active': started, 'counter': Counter(), 'memo': {}, 'enabled': True}

    def argv(step):
        return [mkval(n) for n in step.get('a', ())], {k: mkval(n) for k, n in step.get('k', {}).items()}

    def discard():
        if st['active']:
            st['active'] = False
            R['discarded'] = True
            R['forced'] = False

    def act(step, obs, nested):
        do = step.get('do')
        if do is None:
            return call(step, obs, nested)
        if do == 'discard':
            discard()
        elif do == 'force':
            if st['active'] and not params.get('ignore'):
                R['forced'] = True
        elif do == 'disable':
            st['enabled'] = False
        elif do == 'tick':
            R['ticks'] += step['d']
        elif do == 'val':
            if obs is not None:
                obs.append(['ret', mkval(step['v'])])
        elif do == 'mutarg':
            pass   # output arguments are captured by reference (no copy is promised): the reference does not model their later state
        elif do == 'mut':
            if obs:
                mutate(obs[-1][1])
        elif do == 'thr':  # a joined worker thread: its own (clear) interception flag, everything else shared
            for s2 in step['steps']:
                act(s2, obs, False)
        elif do == 'raise':
            raise _RefExc(step['exc'])
        elif do == 'intr':
            raise _RefIntr()
        else:
            raise ValueError(do)

    def run_body(step, spec, args, kw):
        R['bodies'].append((step['fn'], canon(args), canon(kw)))
        for a in step.get('pre', ()):
            act(a, None, True)
        if step.get('intr'):
            raise _RefIntr()
        if 'exc' in step:
            return ('e', EXC[step['exc']].__name__)
        if step.get('fault') in ('copy', 'unser'):
            return ('v', 'UNENCODABLE')
        name = step.get('ret', 'v1')
        if spec['t'] == 'in':
            name = st['memo'].setdefault((step['fn'], step.get('ident'), canon(_captured(spec, args, kw))), name)
        return ('v', name)

    def call(step, obs, nested):
        spec = fs[step['fn']]
        args, kw = argv(step)
        intercept = st['active'] and st['enabled'] and not nested
        key_ok = True
        n = None
        if intercept and spec['t'] == 'in':
            if step.get('fault') == 'key' and (spec.get('capture') is None) and spec['style'] != 'prop':
                discard()
                key_ok = False
        if intercept and spec['t'] == 'out':
            st['counter'][spec['alias']] += 1
            n = st['counter'][spec['alias']]
            if spec.get('handler') and step.get('fault') == 'handler':
                discard()
            else:
                if spec.get('handler'):
                    form = {'wa': list(args), 'wk': kw}
                else:
                    form = {'args': list(args), 'kwargs': kw}
                if step.get('fault') == 'key':  # the unencodable extra argument is simply part of the sent output
                    form = dict(form)
                    R['unser'] = True
                    form['UNENCODABLE-ARG'] = True
                R['outputs'][(spec['alias'], n)] = canon(form)
        out = run_body(step, spec, ([Unencodable()] if step.get('fault') == 'key' else []) + args, kw)
        # capture of the body's outcome
        if intercept and st['active'] and key_ok:
            if spec['t'] == 'in':
                alias = spec['alias'].format(id=step.get('ident', 'A')) if spec.get('resolver') else spec['alias']
                ident = (alias, canon(_captured(spec, args, kw)))
                if out[0] == 'v' and spec.get('handler') and step.get('fault') == 'handler':
                    discard()
                else:
                    R['inputs'][ident] = out
                    if out == ('v', 'UNENCODABLE') and not (spec.get('handler') and step.get('hnone')):
                        R['unser'] = True   # (a handler that keeps nothing stores None instead of the value)
                    if out == ('e', 'UnserExc'):
                        R['unser'] = True   # the raised exception is stored as it is: the serializer refuses it at save time
            else:
                R['results'][(spec['alias'], n)] = out
                if out == ('v', 'UNENCODABLE') or out == ('e', 'UnserExc'):
                    R['unser'] = True
        if obs is not None:
            obs.append(['ret', mkval(out[1]) if out[1] != 'UNENCODABLE' else Unencodable()] if out[0] == 'v' else ['exc', out[1]])

    obs = []
    try:
        for s in prog['steps']:
            act(s, obs, False)
        end = prog.get('end', 'ret')
        if end == 'intr':
            raise _RefIntr()
        if end == 'ret':
            R['outcome'] = ('ret',)
            if st['active']:
                R['op'] = ('v', obs_canon(obs))
                if any(o[0] == 'ret' and isinstance(o[1], Unencodable) for o in obs):
                    R['unser'] = True   # the operation's own result carries the value (captured or not)
        else:
            raise _RefExc(end.split(':')[1])
    except _RefExc as e:
        R['outcome'] = ('raise', _exc_name(e.args[0]))
        if st['active']:
            R['op'] = ('eform' if e.args[0] in ('Unser', 'FlexBad') else 'e', _exc_name(e.args[0]))
    except _RefIntr:
        R['outcome'] = ('raise', 'Interrupt')
    R['obs'] = obs_canon(obs)
    if started:
        if R['discarded']:
            R['final'] = 'aborted'
        else:
            rate = params.get('rate', 1.0)
            if R['forced']:
                keep = True
            elif rate >= 1:
                keep = True
            else:
                R['draws'] = 1
                keep = (draw if draw is not None else 0.5) <= rate
            if not keep:
                R['final'] = 'aborted'
            else:
                R['final'] = 'save_failed' if (R['unser'] or save_raises) else 'saved'
                R['incomplete'] = R['op'] is None
                R['exc_flag'] = {'ret': False, 'raise': True}[R['outcome'][0]] if R['outcome'][1:] != ('Interrupt',) else None
                ext = prog.get('ext')
                R['user_meta'] = {'user_k': 1, 'user_s': 'ab'} if ext in ('dict', 'discard', 'force') else ({'tenant': 'acme', '7': 'x', 'region': 'eu'} if ext == 'nonstr' else {})
    return R


class _RefExc(Exception):
    pass


# ---------------------------------------------------------------------------------------------- reference replay
OP_ALIAS = '_tape_recorder_operation'


def ref_replay(R, prog2, funcs=None):
    """Expected behaviour of replaying prog2 against the recording described by R (= ref(prog1)).
    Returns dict(obs, outputs{(alias,n): canon form}, op, bodies[fn...], outcome)."""
    fs = dict(DEFAULT_FUNCS)
    fs.update(prog2.get('funcs') or {})
    fs.update(funcs or {})
    counter = Counter()
    out = {'outputs': {}, 'bodies': [], 'op': None, 'obs': None, 'outcome': None, 'nested': []}
    obs = []
    cur = [obs]

    class _Escape(Exception):
        pass

    def val(o):
        if o[0] == 'e':
            return ['exc', o[1]]
        if o[1] == 'UNENCODABLE':
            return ['ret', Unencodable()]
        return ['ret', mkval(o[1])]

    def call(step):
        obs = cur[-1]
        n0 = len(obs)
        call1(step, obs)
        if step.get('nocatch') and len(obs) > n0 and obs[-1][0] == 'exc':
            raise _Escape(obs.pop()[1])

    def call1(step, obs):
        spec = fs[step['fn']]
        args = [mkval(n) for n in step.get('a', ())]
        kw = {k: mkval(n) for k, n in step.get('k', {}).items()}
        if spec['t'] == 'in':
            if step.get('fault') == 'key' and spec['style'] != 'prop' and spec.get('capture', None) != []:
                obs.append(['exc', 'InputInterceptionKeyCreationError'])
                return
            alias = spec['alias'].format(id=step.get('ident', 'A')) if spec.get('resolver') else spec['alias']
            fb = spec.get('fallback', [])
            fb = (fb.get('call') or fb.get('call_iter')) if isinstance(fb, dict) else fb
            cap = canon(_captured(spec, args, kw))
            for a in [alias] + list(fb):
                if (a, cap) in R['inputs']:
                    obs.append(val(R['inputs'][(a, cap)]))
                    return
            if spec.get('run_orig'):
                out['bodies'].append(step['fn'])
                nested = []
                cur.append(nested)
                try:
                    for a in step.get('pre', ()):
                        if a.get('do') is None:
                            call(a)
                finally:
                    cur.pop()
                out['nested'].append(obs_canon(nested))
                obs.append(['ret', mkval(step['orig_ret']) if 'orig_ret' in step else Orig(step['fn'])])
                return
            if 'missing' in spec:
                m = spec['missing']
                obs.append(['ret', mkval(m['call'] if isinstance(m, dict) else m)])
                return
            obs.append(['exc', 'RecordingKeyError'])
        else:
            counter[spec['alias']] += 1
            n = counter[spec['alias']]
            form = {'wa': list(args), 'wk': kw} if spec.get('handler') else {'args': list(args), 'kwargs': kw}
            if not (spec.get('handler') and step.get('fault') == 'handler'):
                out['outputs'][(spec['alias'], n)] = canon(form)
            if (spec['alias'], n) in R['results']:
                obs.append(val(R['results'][(spec['alias'], n)]))
            elif spec.get('fail', True):
                obs.append(['exc', 'RecordingKeyError'])
            else:
                obs.append(['ret', mkval(spec['default']) if 'default' in spec else None])

    try:
        for s in prog2['steps']:
            do = s.get('do')
            if do is None:
                call(s)
            elif do == 'val':
                obs.append(['ret', mkval(s['v'])])
            elif do == 'mutarg':
                pass
            elif do == 'mut':
                if obs:
                    mutate(obs[-1][1])
            elif do == 'thr':
                for s2 in s['steps']:
                    call(s2)
            elif do == 'raise':
                raise _RefExc(s['exc'])
            elif do == 'intr':
                raise _RefIntr()
        end = prog2.get('end', 'ret')
        if end == 'intr':
            raise _RefIntr()
        if end != 'ret':
            raise _RefExc(end.split(':')[1])
        out['op'] = ('v', obs_canon(obs))
        out['outcome'] = ('ret',)
    except _RefExc as e:
        out['op'] = ('eform' if e.args[0] in ('Unser', 'FlexBad') else 'e', _exc_name(e.args[0]))
        out['outcome'] = ('raise', _exc_name(e.args[0]))
    except _RefIntr:
        out['outcome'] = ('raise', 'Interrupt')
    except _Escape as e:
        out['outcome'] = ('escape', e.args[0])   # a framework error the service did not catch leaves play()
    out['obs'] = obs_canon(obs)
    return out


def obs_canon(obs):
    if obs is None:
        return None
    r = []
    for o in obs:
        if o[0] == 'ret':
            r.append(('ret', 'UNENCODABLE' if isinstance(o[1], Unencodable) else canon(o[1])))
        else:
            r.append((o[0], o[1] if isinstance(o[1], str) else canon(o[1])))
    return tuple(r)


def op_canon(x):
    """Canonical form of the operation entry's payload (args[0])."""
    if isinstance(x, BaseException):
        return ('e', type(x).__name__)
    if isinstance(x, dict) and 'error_type' in x:
        et = x['error_type']
        return ('eform', et.__name__ if isinstance(et, type) else repr(et))
    return ('v', obs_canon(x))


def outputs_map(outputs, aliases):
    """Output entries -> {(alias, n): canon(value)}; the entry is recognised by 'key contains the alias' and the
    trailing integer, not by the exact key template. Duplicate identities are reported as ('DUP', ...)."""
    import re
    m = {}
    for o in outputs:
        key, value = o.key, o.value
        nums = re.findall(r'(\d+)', key.rsplit('#', 1)[-1]) if '#' in key else re.findall(r'(\d+)', key)
        n = int(nums[0]) if nums else None
        head = key.rsplit('#', 1)[0]
        alias = None
        for a in sorted(aliases, key=len, reverse=True):
            if a in head:
                alias = a
                break
        ident = (alias, n)
        if alias == OP_ALIAS:
            args = value.get('args') if isinstance(value, dict) else None
            cv = op_canon(args[0]) if args else ('malformed', canon(value))
            if isinstance(value, dict) and value.get('kwargs') not in ({}, None):
                cv = ('malformed', canon(value))
        else:
            cv = canon(value)
        if ident in m:
            m[('DUP', key)] = cv
        else:
            m[ident] = cv
    return m


def all_aliases(funcs=None):
    fs = dict(DEFAULT_FUNCS)
    fs.update(funcs or {})
    return [s['alias'] for s in fs.values() if s['t'] == 'out'] + [OP_ALIAS]


def faithful(recording):
    """Is this recording's content inside the pinned serializer's faithful domain? (decode(encode(x)) == x, measured on the
    third-party library alone - never on the code under test)."""
    import jsonpickle
    data = {'d': dict(getattr(recording, 'recording_data', {})), 'm': dict(getattr(recording, 'recording_metadata', {}))}
    try:
        return canon(jsonpickle.decode(jsonpickle.encode(data, unpicklable=True))) == canon(data)
    except Exception:
        return False
