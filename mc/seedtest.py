"""Confirms a seeded change and runs checks against it in a scratch worktree.
   python -m mc.seedtest <dir with patch.diff/demo.py/meta.json> <name> [--checks C01,C09] [--tier quick] [--keep]
Writes /verif/seeded/<name>/ (patch.diff, demo.py, meta.json) when the change is confirmed (suite green, demo fails with / passes without)."""
import argparse, json, os, re, shutil, subprocess, sys, time

ap = argparse.ArgumentParser()
ap.add_argument('src'); ap.add_argument('name'); ap.add_argument('--checks', default=''); ap.add_argument('--tier', default='quick')
ap.add_argument('--noconfirm', action='store_true')
a = ap.parse_args()
wt = '/tmp/wt/_verify_%s_%d' % (a.name, os.getpid())
sh = lambda cmd, **k: subprocess.run(cmd, shell=True, capture_output=True, text=True, **k)
sh('git -C /repo worktree add -q --detach %s HEAD' % wt)
res = {'name': a.name}
try:
    env = dict(os.environ, PYTHONPATH=wt, PYTHONHASHSEED='0')
    demo = os.path.join(a.src, 'demo.py')
    if not a.noconfirm:
        r0 = sh('/venv/bin/python %s' % demo, env=env, cwd=a.src)
        res['demo_clean_exit'] = r0.returncode
    ap_ = sh('git -C %s apply %s' % (wt, os.path.abspath(os.path.join(a.src, 'patch.diff'))))
    if ap_.returncode != 0:
        ap_ = sh('git -C %s apply -3 %s' % (wt, os.path.abspath(os.path.join(a.src, 'patch.diff'))))
    res['apply'] = ap_.returncode
    if ap_.returncode != 0:
        print('PATCH DOES NOT APPLY', ap_.stderr); sys.exit(3)
    if not a.noconfirm:
        t = sh('cd %s && /venv/bin/python -m pytest -q -p no:cacheprovider --timeout=900 --continue-on-collection-errors 2>&1 | tail -1' % wt)
        res['suite'] = t.stdout.strip()
        r1 = sh('/venv/bin/python %s' % demo, env=env, cwd=a.src)
        res['demo_mutant_exit'] = r1.returncode
        res['demo_mutant_out'] = (r1.stdout + r1.stderr)[-300:]
    res['checks'] = {}
    for c in [c for c in a.checks.split(',') if c]:
        t0 = time.time()
        r = sh('cd /verif && PLAYBACK_VERIF_REPO=%s ./mcheck check %s --tier %s' % (wt, c, a.tier))
        sigs = sorted(set(re.findall(r'sig=(\S+)', r.stdout)))
        res['checks'][c] = {'exit': r.returncode, 'sigs': sigs[:6], 'wall': round(time.time() - t0, 1), 'tail': (r.stdout + r.stderr).strip().splitlines()[-1][:200] if (r.stdout + r.stderr).strip() else ''}
    ok = a.noconfirm or (res.get('demo_clean_exit') == 0 and res.get('demo_mutant_exit') == 1 and '105 passed' in res.get('suite', ''))
    res['confirmed'] = ok
    print(json.dumps(res, indent=1))
    if ok and not a.noconfirm:
        dst = '/verif/seeded/%s' % a.name
        os.makedirs(dst, exist_ok=True)
        for f in ('patch.diff', 'demo.py'):
            shutil.copy(os.path.join(a.src, f), dst)
        meta = {}
        try:
            meta = json.load(open(os.path.join(a.src, 'meta.json')))
        except Exception:
            pass
        meta['confirmed_by_me'] = {'suite_with_change': res['suite'], 'demo_with_change_exit': res['demo_mutant_exit'], 'demo_clean_exit': res['demo_clean_exit'],
                                   'how': 'scratch worktree of /repo HEAD, git apply patch.diff, baseline pytest command, PYTHONPATH=<worktree> /venv/bin/python demo.py'}
        meta.setdefault('detection', {}).update({c: v for c, v in res['checks'].items()})
        json.dump(meta, open(os.path.join(dst, 'meta.json'), 'w'), indent=1)
    elif a.noconfirm and os.path.isdir('/verif/seeded/%s' % a.name):
        mp = '/verif/seeded/%s/meta.json' % a.name
        meta = json.load(open(mp))
        meta.setdefault('detection', {}).update({c: v for c, v in res['checks'].items()})
        json.dump(meta, open(mp, 'w'), indent=1)
finally:
    sh('git -C /repo worktree remove --force %s' % wt)
