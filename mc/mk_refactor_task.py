"""Creates a scratch worktree + TASK.md for a sub-agent that makes PROPERTY-PRESERVING maintenance changes (false-alarm probes):
python -m mc.mk_refactor_task R1 "<area description>" """
import json, os, subprocess, sys
rid, area = sys.argv[1], sys.argv[2]
extra = sys.argv[3] if len(sys.argv) > 3 else ''
wt = '/tmp/wt/%s' % rid
props = [json.loads(l) for l in open('/verif/properties.jsonl')]
subprocess.check_call(['git', '-C', '/repo', 'worktree', 'add', '-q', '--detach', wt, 'HEAD'])
plist = '\n'.join('* **%s** %s' % (p['title'], p['statement']) for p in props)
task = f"""# Task: realistic behaviour-preserving maintenance changes to a Python library

You work ONLY inside this directory: `{wt}` — a scratch git worktree of the library "playback"
(Optibus/playback: a decorator framework that records intercepted inputs/outputs of service operations to
"cassettes" (memory / file / S3) and replays them for regression comparison). Never read or write `/repo` or `/verif`.
There is no network. Python is `/venv/bin/python` (3.12). Read README.md and the code under `playback/` first.

## What to produce

THREE different, independent maintenance changes to the library source (files under `playback/` only; never touch
`tests/`) in this area: **{area}**

Each change is the kind of thing a maintainer really commits: a refactor (extract / inline helpers, rename PRIVATE
attributes, methods or local variables, restructure control flow, replace one internal data structure or standard-library
primitive by an equivalent one, replace one way of calling a third-party API by an equivalent one), a genuine performance
improvement (avoid repeated work, batch requests), a robustness or logging improvement, a Python-3 clean-up. Each should be
substantial (roughly 20-120 changed lines), not cosmetic, and the three should differ in kind. {extra} They must NOT change any
public name, signature, default or documented behaviour, and they must keep ALL of the following user-visible properties of
the library true for every input, interleaving and history (read them carefully and re-read the code you touch against
them; if a change would break or even weaken one of them in some corner, fix the change or choose another one):

{plist}

The existing test suite must still pass exactly as before. Run it with
`cd {wt} && /venv/bin/python -m pytest -q -p no:cacheprovider --timeout=900 --continue-on-collection-errors`
On the unchanged tree this prints `2 failed, 105 passed, ... 1 error` (the 2 failures `*_no_arguments_raise_exception`
and the S3 collection error are pre-existing and expected). With your change the same 105 tests must pass and nothing else
may start failing.

For each change k = 1, 2, 3 write into `{wt}/_out/<k>/`:
 * `patch.diff` — output of `git diff` against HEAD (only files under `playback/`), applicable with `git apply`;
 * `meta.json` — {{"area": "{rid}", "summary": "...what was changed and why a maintainer would do it...",
   "why_behaviour_is_preserved": "...", "files_touched": [...], "tests": "<the pytest summary line you observed>"}}

Procedure per change: edit -> run the test suite -> write a small throw-away script exercising the code you touched
before/after (record + replay through the touched path; for S3 code fake `boto3`) and make sure observable behaviour is
identical, including for error paths -> save patch.diff -> `git checkout -- playback`. When you finish the worktree must
be clean except for `_out/`. Finally reply with a short list: one line per change saying what it does.
"""
open(os.path.join(wt, 'TASK.md'), 'w').write(task)
print(wt)
