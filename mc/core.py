"""Shared driver: case enumeration -> sharded execution on the real code -> evidence / violations.

A check module provides
    ID, LEVEL, RULE, ASSUMPTIONS, DESIGN_REF
    gen_cases(tier, seed)   -> iterable of JSON-able case descriptors (simplest first)
    run_case(case)          -> dict(viol=[{sig, what, expected, observed}], obs=<hashable str>,
                                    nontrivial=bool, transitions=int, states=[hashable...] (optional),
                                    extra={counter: int} (optional))
    bounds(tier)            -> dict describing the bound (goes to evidence)
    optional: worker_init(), finalize(ctx) (cross-case oracles; may add violations)
Every case is executed on the implementation imported from the repository working tree.
"""
from __future__ import annotations

import hashlib
import json
import multiprocessing as mp
import os
import random
import sys
import time
import traceback

VERIF = os.path.dirname(os.path.dirname(os.path.abspath(__file__)))
REPO = os.environ.get('PLAYBACK_VERIF_REPO', '/repo')
# runs against a scratch copy (mutant testing) never touch the committed evidence
_SCRATCH = REPO != '/repo'
EVIDENCE_DIR = os.path.join(VERIF, 'evidence') if not _SCRATCH else '/tmp/mc_scratch/evidence'
REPLAY_DIR = os.path.join(VERIF, 'replays') if not _SCRATCH else '/tmp/mc_scratch/replays'
KNOWN_FILE = os.path.join(VERIF, 'known_findings.json')


class HarnessError(BaseException):
    """The harness itself is wrong (nondeterminism not owned, seam missing, a fake that does not model a call...): exit 2,
    never a verdict.  Derives from BaseException so that no `except Exception` in a check can turn it into a violation."""


def bind_repo():
    """Make sure `playback` is imported from the repository working tree."""
    if REPO != '/repo':
        sys.path.insert(0, REPO)
    import playback
    root = os.path.realpath(os.path.dirname(os.path.dirname(playback.__file__)))
    if root != os.path.realpath(REPO):
        raise HarnessError('playback imported from %s, expected %s' % (root, REPO))
    import logging
    logging.disable(logging.CRITICAL)
    return playback


def jhash(x):
    return hashlib.sha1(json.dumps(x, sort_keys=True, default=repr).encode('utf-8')).hexdigest()[:16]


def load_known():
    if not os.path.exists(KNOWN_FILE):
        return []
    with open(KNOWN_FILE) as f:
        return json.load(f)['findings']


# ----------------------------------------------------------------------------------------------
# worker side

_MOD = None


def _winit(modname):
    global _MOD
    import importlib
    bind_repo()
    _MOD = importlib.import_module(modname)
    if hasattr(_MOD, 'worker_init'):
        _MOD.worker_init()


def _library_verdict(e):
    """An exception raised BY the code under test at a point where the unchanged code does not raise (every check is silent there):
    the library failed a call the check expected to succeed inside its domain - a verdict about the library, not a harness fault.
    Returns the result dict, or None if the exception did not originate in the library."""
    tb = e.__traceback__
    while tb is not None and tb.tb_next is not None:
        tb = tb.tb_next
    origin = tb.tb_frame.f_code.co_filename if tb is not None else ''
    lib = os.path.join(os.environ.get('PLAYBACK_VERIF_REPO') or '/repo', 'playback') + os.sep
    if not origin.startswith(lib) or isinstance(e, HarnessError):
        return None
    where = '%s:%s' % (os.path.basename(origin), tb.tb_frame.f_code.co_name)
    return dict(viol=[viol('library-raised:%s:%s' % (type(e).__name__, where), 'a library call that succeeds on the reference behaviour raised inside the explored domain',
                           'no exception', ''.join(traceback.format_exception(type(e), e, e.__traceback__))[-1500:])], obs='library-raised:%s' % type(e).__name__)


def run_case_guarded(mod, case):
    try:
        _arm_watchdog()
        try:
            return mod.run_case(case)
        finally:
            _disarm_watchdog()
    except CaseTimeout as e:
        who, where, kind = e.args[0]
        if who == 'library':
            return dict(viol=[viol('library-did-not-terminate', 'a library call did not return within the %s budget of a case (every case of the unchanged tree needs a small '
                                   'fraction of it)' % kind, 'returns', 'still running in %s' % where)], obs='library-did-not-terminate')
        raise HarnessError('a case did not finish within the %s budget (stopped in %s): %s' % (kind, where, json.dumps(case, default=repr)[:300]))
    except HarnessError:
        raise
    except Exception as e:
        r = _library_verdict(e)
        if r is None:
            raise
        return r


class CaseTimeout(BaseException):
    pass


def _arm_watchdog():
    """A case that burns more CPU than any case of any tier ever needed (measured in process CPU time, so machine load does not
    matter), or that makes no progress for hours of wall time, is stopped: a non-terminating library call is a verdict, anything else
    a harness error - a check must never hang."""
    import signal
    cpu = float(os.environ.get('VERIF_CASE_CPU_SECONDS', '3600'))
    wall = float(os.environ.get('VERIF_CASE_WALL_SECONDS', '14400'))

    def fire(signum, frame):
        f = frame
        origin = f.f_code.co_filename if f is not None else ''
        lib = os.path.join(os.environ.get('PLAYBACK_VERIF_REPO') or '/repo', 'playback') + os.sep
        where = '%s:%s' % (os.path.basename(origin), f.f_code.co_name) if f is not None else '?'
        raise CaseTimeout(('library' if origin.startswith(lib) else 'harness', where, 'cpu' if signum == signal.SIGPROF else 'wall'))
    try:
        signal.signal(signal.SIGPROF, fire)
        signal.signal(signal.SIGALRM, fire)
        signal.setitimer(signal.ITIMER_PROF, cpu)
        signal.setitimer(signal.ITIMER_REAL, wall)
    except (ValueError, AttributeError, OSError):
        pass   # not in the main thread of the process / no such timer: run without the watchdog


def _disarm_watchdog():
    import signal
    try:
        signal.setitimer(signal.ITIMER_PROF, 0)
        signal.setitimer(signal.ITIMER_REAL, 0)
    except (ValueError, AttributeError, OSError):
        pass


def _wrun(chunk):
    out = []
    for idx, case in chunk:
        try:
            r = run_case_guarded(_MOD, case)
        except HarnessError as e:
            raise RuntimeError('HARNESS ERROR: %s' % (e,))   # crosses the process boundary as an ordinary exception
        except BaseException as e:  # a crash of the harness is reported, never swallowed
            r = dict(viol=[], obs='HARNESS-CRASH', crash=''.join(traceback.format_exception(type(e), e, e.__traceback__))[-3000:])
        r['idx'] = idx
        out.append(r)
    return out


# ----------------------------------------------------------------------------------------------

class Ctx(object):
    def __init__(self, mod, tier, seed, workers):
        self.mod, self.tier, self.seed, self.workers = mod, tier, seed, workers
        self.evaluations = 0
        self.transitions = 0
        self.obs = set()
        self.states = set()
        self.nontrivial = set()
        self.extra = {}
        self.violations = []  # (case, viol)
        self.samples = []
        self.caps = []
        self.notes = {}

    def add_violation(self, case, viol):
        self.violations.append((case, viol))


def _watched(pool, it):
    """Results of the pool; a worker process that dies (e.g. the interpreter crashes under the code being explored) would make a
    multiprocessing.Pool wait for ever for the lost chunk: that is a harness error (exit 2), never a hang and never a verdict."""
    seen = {}
    while True:
        for p in list(pool._pool):
            seen[p.pid] = p
        try:
            yield it.next(timeout=5)
        except mp.TimeoutError:
            dead = [(pid, p.exitcode) for pid, p in seen.items() if p.exitcode not in (None, 0)]
            if dead:
                raise HarnessError('worker process died (pid, exit code): %s' % dead)
        except StopIteration:
            return


def run_check(mod, tier, seed, workers=None, only_case=None):
    t0 = time.time()
    workers = workers or int(os.environ.get('VERIF_WORKERS', '16'))
    ctx = Ctx(mod, tier, seed, workers)
    cases = list(mod.gen_cases(tier, seed)) if only_case is None else [only_case]
    n = len(cases)
    indexed = list(enumerate(cases))
    # sample cases written out in the evidence: first, middle, last + 2 seeded
    rnd = random.Random(seed)
    sample_idx = sorted(set([0, n // 2, n - 1] + [rnd.randrange(n) for _ in range(2)])) if n else []
    # shard: round-robin chunks, order permuted by seed (the SET of cases is seed independent)
    csize = max(1, min(getattr(mod, 'CHUNK', 200), (n + workers * 4 - 1) // (workers * 4)))
    heavy = getattr(mod, 'heavy', None)
    light = [ic for ic in indexed if not (heavy and heavy(ic[1]))]
    chunks = [light[i:i + csize] for i in range(0, len(light), csize)]
    rnd.shuffle(chunks)
    # heavy cases (whole schedule explorations) are their own chunks and start first
    chunks = [[ic] for ic in indexed if heavy and heavy(ic[1])] + chunks
    results_iter = None
    pool = None
    if workers > 1 and n > 1:
        pool = mp.get_context('fork').Pool(workers, initializer=_winit, initargs=(mod.__name__,))
        results_iter = _watched(pool, pool.imap_unordered(_wrun, chunks))
    else:
        _winit(mod.__name__)
        results_iter = (_wrun(c) for c in chunks)
    crashes = []
    obs_by_idx = {}
    try:
        for res in results_iter:
            for r in res:
                ctx.evaluations += r.get('evals', 1)
                ctx.transitions += r.get('transitions', 1)
                ctx.obs.add(r.get('obs'))
                if r['idx'] < 200:
                    obs_by_idx[r['idx']] = str(r.get('obs'))
                for s in r.get('states', ()):
                    ctx.states.add(s)
                if r.get('nontrivial'):
                    ctx.nontrivial.add(r.get('ntkey', r['idx']))
                for k, v in r.get('extra', {}).items():
                    if isinstance(v, (int, float)) and 'max' in k.split('_'):
                        ctx.extra[k] = max(ctx.extra.get(k, 0), v)   # counters named *max* are maxima over the cases
                    elif isinstance(v, (int, float)):
                        ctx.extra[k] = ctx.extra.get(k, 0) + v
                    elif isinstance(v, list):
                        ctx.extra.setdefault(k, set()).update(v)
                for c in r.get('caps', ()):
                    if c not in ctx.caps:
                        ctx.caps.append(c)
                if r.get('crash'):
                    crashes.append((cases[r['idx']], r['crash']))
                for v in r.get('viol', ()):
                    v['_idx'] = r['idx']
                    ctx.add_violation(cases[r['idx']], v)
                if r['idx'] in sample_idx and len(ctx.samples) < 5:
                    ctx.samples.append({'case': cases[r['idx']], 'observation': str(r.get('obs'))[:300]})
    finally:
        if pool is not None:
            pool.terminate()
            pool.join()
    if crashes:
        sys.stderr.write('HARNESS CRASH in %d case(s); first:\ncase=%s\n%s\n' % (len(crashes), json.dumps(crashes[0][0], default=repr)[:1000], crashes[0][1]))
        raise HarnessError('harness crashed')
    # owned nondeterminism is checked, not assumed: the first light cases are executed once more in this process and must give the
    # same observation (a mismatch is a harness error, never a verdict)
    if only_case is None and n:
        heavy_f = getattr(mod, 'heavy', None)
        again = [(i, c) for i, c in indexed if not (heavy_f and heavy_f(c))][:int(os.environ.get('VERIF_RECHECK', str(getattr(mod, 'RECHECK', 25))))]
        _winit(mod.__name__)
        mismatches = []
        for i, c in again:
            r2 = run_case_guarded(mod, c)
            if obs_by_idx.get(i) is not None and str(r2.get('obs')) != obs_by_idx[i]:
                mismatches.append((i, obs_by_idx[i][:200], str(r2.get('obs'))[:200]))
        ctx.notes['determinism_recheck'] = {'cases_re_executed': len(again), 'mismatches': len(mismatches)}
        if mismatches:
            sys.stderr.write('re-execution of case %d gave another observation:\n  first : %s\n  second: %s\n' % mismatches[0])
            open_sigs = {k['sig'] for k in load_known() if k['property'] == mod.ID and k['status'] == 'known'}
            if any(v['sig'] not in open_sigs for _c, v in ctx.violations):
                # the code under test is already in violation, and state it keeps between cases (a process-wide switch, a cache) is a likely
                # cause of both: report the violation (finish() re-executes it and insists that it reproduces) instead of giving up
                sys.stderr.write('note: observations depend on what ran before in the process; reporting the violations found\n')
            else:
                raise HarnessError('re-executed cases gave different observations: nondeterminism not owned')
    if hasattr(mod, 'finalize') and only_case is None:
        mod.finalize(ctx)
    return finish(ctx, cases, time.time() - t0, only_case is not None)


def finish(ctx, cases, wall, replay_mode=False):
    mod = ctx.mod
    known = [k for k in load_known() if k['property'] == mod.ID]
    known_open = {k['sig']: k for k in known if k['status'] == 'known'}
    unlisted, listed = [], {}
    for case, v in sorted(ctx.violations, key=lambda cv: cv[1].get('_idx', 0)):  # simplest case first
        if v['sig'] in known_open:
            listed.setdefault(v['sig'], []).append((case, v))
        else:
            unlisted.append((case, v))
    # confirm determinism of what is about to be reported (same case -> same violation signatures)
    if unlisted and not replay_mode:
        case, v = unlisted[0]
        if not v.get('global'):
            _winit(mod.__name__)
            again = run_case_guarded(mod, case)
            if v['sig'] not in [x['sig'] for x in again.get('viol', ())]:
                raise HarnessError('violation did not reproduce on re-execution: nondeterminism not owned (%s)' % v['sig'])
    lines = []
    for sig, lst in sorted(listed.items()):
        lines.append('KNOWN-FINDING: property=%s %s [%s; %d case(s) this run]' % (mod.ID, known_open[sig]['what'], sig, len(lst)))
    replay_paths = []
    seen_sigs = set()
    for case, v in unlisted:
        if v['sig'] in seen_sigs:
            continue
        seen_sigs.add(v['sig'])
        os.makedirs(os.path.join(REPLAY_DIR, mod.ID), exist_ok=True)
        body = {'property': mod.ID, 'module': mod.__name__, 'case': case, 'violation': v}
        path = os.path.join(REPLAY_DIR, mod.ID, jhash(body) + '.json')
        with open(path, 'w') as f:
            json.dump(body, f, indent=1, default=repr)
        replay_paths.append(path)
        lines.append('VIOLATION property=%s replay=%s' % (mod.ID, path))
        lines.append('  sig=%s what=%s' % (v['sig'], str(v.get('what'))[:300]))
        lines.append('  expected=%s' % str(v.get('expected'))[:300])
        lines.append('  observed=%s' % str(v.get('observed'))[:300])
        if len(seen_sigs) >= 10:
            break
    cov = {
        'evaluations': ctx.evaluations,
        'distinct_nontrivial': len(ctx.nontrivial),
        'rule': mod.RULE,
        'samples': ctx.samples or [{'case': cases[0]}] if cases else [],
        'states': max(1, len(ctx.states | ctx.obs) if ctx.states else len(ctx.obs)),
        'transitions': max(1, ctx.transitions),
        'traces_validated_against_impl': ctx.evaluations,
        'distinct_outcomes': len(ctx.obs),
        'cases': len(cases),
        'exhaustive': not ctx.caps,
        'caps_hit': ctx.caps,
        'bounds': mod.bounds(ctx.tier),
        'known_findings_reported': sorted(listed),
        'unlisted_violation_signatures': sorted(seen_sigs),
    }
    for k, v in ctx.extra.items():
        cov[k] = len(v) if isinstance(v, set) else v
    cov.update(ctx.notes)
    ev = {
        'property_id': mod.ID, 'tier': ctx.tier, 'seed': ctx.seed, 'level': mod.LEVEL, 'coverage': cov,
        'assumptions': list(mod.ASSUMPTIONS), 'wall_s': round(wall, 2), 'violations': len(unlisted),
    }
    if not replay_mode:
        write_evidence(ev)
    for l in lines:
        print(l)
    print('%s %s tier=%s seed=%d cases=%d evaluations=%d states=%d transitions=%d outcomes=%d nontrivial=%d violations=%d known=%d wall=%.1fs%s' % (
        'FAIL' if unlisted else 'OK', mod.ID, ctx.tier, ctx.seed, len(cases), ctx.evaluations, cov['states'], cov['transitions'],
        len(ctx.obs), len(ctx.nontrivial), len(unlisted), len(listed), wall, (' CAPS=%s' % ctx.caps) if ctx.caps else ''))
    return 1 if unlisted else 0


def write_evidence(ev):
    os.makedirs(EVIDENCE_DIR, exist_ok=True)
    path = os.path.join(EVIDENCE_DIR, ev['property_id'] + '.json')
    try:
        import jsonschema
        with open('/root/.vp/EVIDENCE.schema.json') as f:
            schema = json.load(f)
        jsonschema.validate(json.loads(json.dumps(ev, default=repr)), schema)
    except ImportError:
        pass
    except FileNotFoundError:
        pass
    tmp = '%s.%d.tmp' % (path, os.getpid())
    with open(tmp, 'w') as f:
        json.dump(ev, f, indent=1, default=repr, sort_keys=True)
    os.replace(tmp, path)


def viol(sig, what, expected=None, observed=None, **kw):
    d = {'sig': sig, 'what': what, 'expected': _short(expected), 'observed': _short(observed)}
    d.update(kw)
    return d


def _short(x):
    s = x if isinstance(x, str) else repr(x)
    return s if len(s) < 1500 else s[:1500] + '...'
