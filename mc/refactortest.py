"""Runs every quick check against a behaviour-preserving change (false-alarm probe) in a scratch worktree.
   python -m mc.refactortest <dir with patch.diff/meta.json> <name> [--checks C01,C02] [--workers 8]
Writes /verif/refactors/<name>/ (patch.diff, meta.json incl. the result of every check)."""
import argparse, json, os, re, shutil, subprocess, sys, time

ap = argparse.ArgumentParser()
ap.add_argument('src'); ap.add_argument('name'); ap.add_argument('--checks', default=''); ap.add_argument('--workers', default='8')
a = ap.parse_args()
wt = '/tmp/wt/_rverify_%s_%d' % (a.name, os.getpid())
sh = lambda cmd, **k: subprocess.run(cmd, shell=True, capture_output=True, text=True, **k)
sh('git -C /repo worktree add -q --detach %s HEAD' % wt)
res = {'name': a.name}
try:
    ap_ = sh('git -C %s apply %s' % (wt, os.path.abspath(os.path.join(a.src, 'patch.diff'))))
    res['apply'] = ap_.returncode
    if ap_.returncode != 0:
        print('PATCH DOES NOT APPLY', ap_.stderr); sys.exit(3)
    t = sh('cd %s && /venv/bin/python -m pytest -q -p no:cacheprovider --timeout=900 --continue-on-collection-errors 2>&1 | tail -1' % wt)
    res['suite'] = t.stdout.strip()
    checks = [c for c in a.checks.split(',') if c] or ['C%02d' % i for i in range(1, 21)]
    res['checks'] = {}
    for c in checks:
        t0 = time.time()
        r = sh('cd /verif && VERIF_WORKERS=%s PLAYBACK_VERIF_REPO=%s ./mcheck check %s --tier quick' % (a.workers, wt, c))
        sigs = sorted(set(re.findall(r'sig=(\S+)', r.stdout)))
        out = (r.stdout + r.stderr).strip()
        res['checks'][c] = {'exit': r.returncode, 'sigs': sigs[:6], 'wall': round(time.time() - t0, 1), 'tail': out.splitlines()[-1][:300] if out else ''}
        if r.returncode not in (0,):
            res['checks'][c]['stderr'] = r.stderr[-1500:]
    res['alarms'] = sorted(c for c, v in res['checks'].items() if v['exit'] != 0)
    dst = '/verif/refactors/%s' % a.name
    os.makedirs(dst, exist_ok=True)
    shutil.copy(os.path.join(a.src, 'patch.diff'), dst)
    meta = {}
    try:
        meta = json.load(open(os.path.join(a.src, 'meta.json')))
    except Exception:
        pass
    meta['result'] = res
    json.dump(meta, open(os.path.join(dst, 'meta.json'), 'w'), indent=1)
    print(json.dumps({'name': a.name, 'suite': res['suite'], 'alarms': {c: res['checks'][c] for c in res['alarms']}}, indent=1))
finally:
    sh('git -C /repo worktree remove --force %s' % wt)
