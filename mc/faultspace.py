"""Program x fault-placement space shared by C04 (transparency), C05 (finalisation), C18 (metadata).

case = {'base': [letter...], 'mods': [[kind, pos]...], 'end': ..., 'glob': name}
"""
from __future__ import annotations

import copy
import itertools

from mc import progs as P

LET = {
    'A': {'fn': 'in_a', 'a': ['x1'], 'ret': 'vlst'},
    'H': {'fn': 'in_hdl', 'a': ['x1'], 'ret': 'vdct'},
    'O': {'fn': 'out_a', 'a': ['x1'], 'ret': 'vtup'},
    'G': {'fn': 'out_hdl', 'a': ['x1'], 'ret': 'v1'},
    'S': {'fn': 'in_static', 'a': ['x2'], 'ret': 'vobj'},
    'K': {'fn': 'out_a', 'a': ['x1'], 'k': {'z': 'xl', 'y': 'xo1'}, 'ret': 'vdct'},
    'W': {'do': 'thr', 'steps': [{'fn': 'in_b', 'a': ['x2'], 'ret': 'vdct'}]},   # an interception made on a joined worker thread of the operation
    'N': {'fn': 'in_b', 'a': ['x2'], 'ret': 'vs', 'pre': [{'fn': 'in_a', 'a': ['x1'], 'ret': 'vlst'}, {'fn': 'out_a', 'a': ['x1'], 'ret': 'v0'}]},
}
STEP_FAULTS = ['key', 'handler', 'unser']
STEP_BODY = ['exc', 'intr', 'exc-lib', 'exc-unser']
STEP_PRE = ['pre-discard', 'pre-force', 'hnone']
GAP = ['gap-discard', 'gap-force', 'gap-raise', 'gap-intr']
ENDS = ['ret', 'raise:E1', 'raise:Unser', 'intr']
GLOBS = {
    'none': {}, 'ext-dict': {'ext': 'dict'}, 'ext-raise': {'ext': 'raise'}, 'ext-none': {'ext': 'none'}, 'ext-int': {'ext': 'int'},
    'ext-str': {'ext': 'str'}, 'ext-list': {'ext': 'list'}, 'ext-partial': {'ext': 'partial'}, 'ext-discard': {'ext': 'discard'}, 'ext-force': {'ext': 'force', 'params': {'rate': 0.0}},
    'save-raises': {'save_raises': True}, 'rate0': {'params': {'rate': 0.0}}, 'rate.5-keep': {'params': {'rate': 0.5}, 'draw': 0.25},
    'rate.5-drop': {'params': {'rate': 0.5}, 'draw': 0.75}, 'copy-on': {'params': {'copy': True}}, 'cls': {'kind': 'cls'},
    'cls-ext': {'kind': 'cls', 'ext': 'dict'}, 'ignore-rate0': {'params': {'rate': 0.0, 'ignore': True}}, 'skipped': {'params': {'skipped': True}},
    'disabled': {'enabled': False},
    'prior-run-params': {'params': {'rate': 1.0}, 'ext': 'raise', 'prior': True}, 'prior-run': {'ext': 'raise', 'prior': True},
    'ext-nonstr': {'ext': 'nonstr'},
    'in-except': {'call_context': 'except'}, 'in-finally': {'call_context': 'finally', 'ext': 'dict'},
    'debug-log': {'debug_log': True}, 'debug-log-ext': {'debug_log': True, 'ext': 'dict', 'save_raises': True},
    'sub': {'sub': True, 'ext': 'dict'}, 'sub-params': {'sub': True, 'params': {'rate': 0.0}}, 'sub-cls': {'sub': True, 'kind': 'cls', 'params': {'skipped': True}},
}
CLEAN2 = {'steps': [{'fn': 'in_a', 'a': ['x1'], 'ret': 'vlst'}, {'fn': 'out_a', 'a': ['x1'], 'ret': 'v1'}, {'fn': 'out_a', 'a': ['x2'], 'ret': 'v0'}]}


def _call_of(step):
    return step['steps'][0] if step.get('do') == 'thr' else step


def applicable(letter, kind):
    fn = _call_of(LET[letter])['fn']
    if kind == 'key':
        return fn in ('in_a', 'in_b', 'in_static')
    if kind == 'handler':
        return fn in ('in_hdl', 'out_hdl')
    if kind == 'hnone':
        return fn == 'in_hdl'
    if kind == 'intr' and LET[letter].get('do') == 'thr':
        return False   # a BaseException that only kills a worker thread is absorbed there: outside the quantifier (like a caught one)
    return True


def local_mods(base, extra_gap=()):
    mods = []
    for i, l in enumerate(base):
        for k in STEP_FAULTS + STEP_BODY + STEP_PRE:
            if applicable(l, k):
                mods.append([k, i])
    for g in range(len(base) + 1):
        for k in list(GAP) + list(extra_gap):
            mods.append([k, g])
    return mods


def compatible(m1, m2):
    if m1[1] == m2[1]:
        a, b = m1[0], m2[0]
        if a in STEP_FAULTS and b in STEP_FAULTS:
            return False
        if a in STEP_BODY and b in STEP_BODY:
            return False
        if a.startswith('gap-') and b.startswith('gap-'):
            return a != b
    return True


def build(case):
    steps = [copy.deepcopy(LET[l]) for l in case['base']]
    for i, st in enumerate(steps):  # distinct arguments per position: an input is a function of alias + captured arguments
        _call_of(st)['a'] = [['x1', 'xop', 'xs', 'xt'][i]]
    gaps = {}
    for kind, pos in case['mods']:
        tgt = _call_of(steps[pos]) if pos < len(steps) and kind in STEP_FAULTS + STEP_BODY + STEP_PRE else None
        if kind in STEP_FAULTS:
            tgt['fault'] = kind
        elif kind in ('exc', 'exc-lib', 'exc-unser'):
            tgt['exc'] = {'exc': 'E1', 'exc-lib': 'RKE', 'exc-unser': 'Unser'}[kind]
            tgt.pop('ret', None)
        elif kind == 'intr':
            tgt['intr'] = True
            tgt.pop('ret', None)
        elif kind == 'pre-discard':
            tgt.setdefault('pre', []).insert(0, {'do': 'discard'})
        elif kind == 'pre-force':
            tgt.setdefault('pre', []).insert(0, {'do': 'force'})
        elif kind == 'hnone':
            tgt['hnone'] = True
        else:
            gaps.setdefault(pos, []).append({'gap-discard': {'do': 'discard'}, 'gap-force': {'do': 'force'}, 'gap-raise': {'do': 'raise', 'exc': 'E2'},
                                             'gap-intr': {'do': 'intr'}, 'gap-disable': {'do': 'disable'}}[kind])
    out = []
    for i in range(len(steps) + 1):
        out += [{'do': 'tick', 'd': 1.5}] if i == 0 else []
        out += gaps.get(i, [])
        if i < len(steps):
            out.append(steps[i])
            out.append({'do': 'tick', 'd': 0.25 * (i + 1)})
    g = GLOBS[case['glob']]
    prog = {'steps': out, 'end': case['end']}
    for k in ('ext', 'params', 'kind', 'sub', 'call_context'):
        if k in g:
            prog[k] = g[k]
    return prog, g


QUICK_PAIRS = ['AO', 'OA', 'AH', 'HG', 'GO', 'OO', 'SO', 'NA', 'AN', 'WA', 'AW', 'WO', 'OW', 'HH', 'OG', 'SN', 'WW', 'AS', 'NO', 'KA', 'OK', 'WK']


def gen(tier, letters='AHOGSNW', pair_ends=('ret', 'raise:E1'), extra_gap=()):
    maxlen = 2 if tier == 'quick' else 3
    letters = list(letters)
    for n in range(1, maxlen + 1):
        for base in itertools.product(letters, repeat=n):
            base = list(base)
            if tier == 'quick' and n == 2 and ''.join(base) not in QUICK_PAIRS:
                continue   # quick: a covering set of 2-letter bases (every letter in both positions); thorough: all of them
            if tier == 'thorough' and n == 3 and len(set(base)) == 3 and base != sorted(base):
                # three different letters: order of independent letters only permutes positions; keep sorted + all with repeats
                continue
            lm = local_mods(base, extra_gap)
            for m in [[]] + [[x] for x in lm]:
                for end in ENDS:
                    for glob in GLOBS:
                        yield {'base': base, 'mods': m, 'end': end, 'glob': glob}
            for m1, m2 in itertools.combinations(lm, 2):
                if not compatible(m1, m2):
                    continue
                for end in pair_ends:
                    yield {'base': base, 'mods': [m1, m2], 'end': end, 'glob': 'none'}
                yield {'base': base, 'mods': [m1, m2], 'end': 'ret', 'glob': 'copy-on'}


class Bundle(object):
    pass


class debug_logging(object):
    """The service runs with the library's loggers at DEBUG (records go to a handler that drops them): every log call is really formatted."""

    def __init__(self, on):
        self.on = on

    def __enter__(self):
        if self.on:
            import logging
            self.lg = logging.getLogger('playback')
            self.saved = (self.lg.level, self.lg.propagate, list(self.lg.handlers), logging.root.manager.disable)
            self.lg.handlers[:] = [logging.NullHandler()]
            self.lg.propagate = False
            self.lg.setLevel(logging.DEBUG)
            logging.disable(logging.NOTSET)

    def __exit__(self, *a):
        if self.on:
            import logging
            self.lg.setLevel(self.saved[0])
            self.lg.propagate = self.saved[1]
            self.lg.handlers[:] = self.saved[2]
            logging.disable(self.saved[3])
        return False


def execute(case, second=True, cas='mem'):
    prog, g = build(case)
    with debug_logging(g.get('debug_log')):
        return _execute(case, prog, g, second, cas)


def _execute(case, prog, g, second, cas):
    from mc import cassettes
    b = Bundle()
    b.prog, b.g = prog, g
    b.box = cassettes.Box(cas)
    b.prior_ids = []
    draw = g.get('draw')
    b.R = P.ref(prog, enabled=g.get('enabled', True), draw=draw, save_raises=g.get('save_raises', False))
    if g.get('prior'):
        # an earlier run of the same class on the same recorder: its extractor succeeded and it ended with an ordinary exception
        prior = {'steps': [{'fn': 'out_b', 'a': ['xs'], 'ret': 'v1'}], 'end': 'raise:E2'}
        for k in ('ext', 'params', 'kind', 'sub'):
            if k in prog:
                prior[k] = prog[k]
        P.RT.ext_override = None
        pr = P.record(prior, inner=b.box.cassette, draws=[0.5])
        env = pr.env
        P.RT.ext_override = 'dict'
        P.record(dict(prior), env=env)
        P.RT.ext_override = None
        b.prior_ids = [e[1] for e in env.spy.log if e[0] == 'save']
        b.r1 = P.record(prog, env=env)
    else:
        b.r1 = P.record(prog, inner=b.box.cassette, enabled=g.get('enabled', True), save_raises=g.get('save_raises', False),
                        draws=[draw] if draw is not None else ([0.5] if True else None))
    b.env = b.r1.env
    b.end1 = P.RT.last_end
    b.r2 = None
    if second:
        b.env.spy.save_raises = False
        b.R2 = P.ref(CLEAN2, enabled=g.get('enabled', True))
        if g.get('params') and not g.get('sub'):
            b.R2 = P.ref(dict(CLEAN2, params=g['params']), enabled=g.get('enabled', True), draw=0.5)
        b.r2 = P.record(dict(CLEAN2), env=b.env)
    return b
