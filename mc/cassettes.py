"""Cassette factories: every cassette type over a per-case store, with a 'fresh view' (new cassette object on the same store)."""
from __future__ import annotations

import os
import shutil
import tempfile

from mc import fakes3

KINDS = ['mem', 'file', 's3']
CATEGORIES = ('Op', 'SubOp', 'OpX', 'Op_X', 'B', 'K0', 'K0i', 'K5', 'K1', 'Ks', 'Kx', 'FileOp', 'KeyOp')


class Box(object):
    """A store + the cassette objects that look at it."""

    def __init__(self, kind, prefix='p', **kw):
        self.kind, self.prefix, self.kw = kind, prefix, kw
        self.dir = None
        self.root = None
        if kind == 'file':
            self.dir = self.root = tempfile.mkdtemp(prefix='mc_cas_')
            if kw.get('subdir'):   # a legal directory name that happens to contain pattern / format metacharacters
                self.dir = os.path.join(self.root, kw.pop('subdir'))
                os.makedirs(self.dir)
        elif kind == 's3':
            fakes3.install()
            self.store = fakes3.new_store(kw.pop('clock', None))
        self.cassette = self._make(first=True)

    def _make(self, first=False):
        if self.kind == 'mem':
            from playback.tape_cassettes.in_memory.in_memory_tape_cassette import InMemoryTapeCassette
            if first:
                return InMemoryTapeCassette()
            return self.cassette   # an in-memory store lives in its cassette object: there is no other view of it
        if self.kind == 'file':
            from playback.tape_cassettes.file_based.file_based_tape_cassette import FileBasedTapeCassette
            return FileBasedTapeCassette(self.dir)
        from playback.tape_cassettes.s3.s3_tape_cassette import S3TapeCassette
        return S3TapeCassette('bucket', key_prefix=self.prefix, read_only=False, **self.kw)

    def fresh(self):
        return self._make()

    def close(self):
        if self.root and os.path.isdir(self.root):
            shutil.rmtree(self.root, ignore_errors=True)


def _snapshot(box):
    """Byte-level picture of the store behind a Box (what 'nothing is created, changed or saved' is judged on)."""
    if box.kind == 'mem':   # an in-memory store has no bytes to look at: everything its public interface can tell about what it holds
        from mc.refeq import canon
        out = []
        for cat in CATEGORIES:
            for rid in sorted(box.cassette.iter_recording_ids(cat)):
                rec = box.cassette.get_recording(rid)
                out.append((rid, repr(canon({k: rec.get_data(k) for k in rec.get_all_keys()})), repr(canon(rec.get_metadata()))))
        return tuple(out)
    if box.kind == 'file':
        out = []
        for fn in sorted(os.listdir(box.dir)):
            with open(os.path.join(box.dir, fn), 'rb') as f:
                out.append((fn, f.read()))
        return tuple(out)
    return tuple(sorted((k, v[0]) for k, v in box.store.objs.items())) + (len(box.store.log),)


Box.snapshot = _snapshot
