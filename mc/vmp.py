"""Virtual multiprocessing + virtual time for playback.studio.equalizer (DESIGN §2.3).

The equalizer reaches the OS only through the module names bound to `multiprocessing`, `os`, `time()` and `signal`; they are found
by scanning the module globals and replaced by scheduler-owned stand-ins.  A virtual process is a virtual thread that runs the
REAL worker loop on a shallow copy of the parent's Equalizer object (fork semantics: shared queue/event handles, but attributes
rebound in the parent after the fork are not seen by the child).  Code steps take no time; virtual time advances only when the
parent's timed queue wait expires, which is enabled only when no worker step is enabled.
"""
from __future__ import annotations

import copy
import multiprocessing as real_mp
import os as real_os
import signal as real_signal
import time as real_time
import types

from mc import sched as S


from queue import Empty, Full   # multiprocessing.queues.Empty IS queue.Empty: code may catch either name


class World(object):
    __deepcopy__ = lambda self, memo: self
    def __init__(self, s):
        self.s = s
        self.clock = 0.0
        self.events = []
        self.procs = []
        self.parent = None
        self.log = []


W = [None]   # the world of the current execution


class VQueue(object):
    __deepcopy__ = lambda self, memo: self   # an OS-level handle: parent and forked child share it
    def __init__(self, *a, **k):
        self.w = W[0]
        self.items = []
        self.closed = False
        self.poisoned = False   # a reader was SIGKILLed while polling: its reader lock is held for ever (worst case of real mp.Queue)

    def put(self, x, block=True, timeout=None):
        self.items.append(x)
        self.w.s.point(('queue.put',))

    def close(self):
        self.closed = True

    def join_thread(self):
        pass

    def cancel_join_thread(self):
        pass

    def empty(self):
        self.w.s.point(('queue.empty',))
        return not self.items

    def get(self, block=True, timeout=None):
        w = self.w
        s = w.s
        me = s.cur
        if me is w.parent:
            def cond():
                if self.items:
                    return True
                # the timed wait expires only when no worker step is enabled (zero-time steps vs timed waits)
                return not any(t is not me and not t.done and not t.killed and (t.blocked_on is None or t.blocked_on()) for t in s.threads)
            s.block_until(cond, ('queue.get.parent',))
            if self.items:
                return self.items.pop(0)
            w.clock += (timeout if timeout is not None else 1)
            raise Empty()
        # a worker polling its task queue: the empty poll is a stutter step, so it is modelled as a wait released by a task
        # or by any event being set (the worker then re-reads its terminate flag)
        me.polling = self
        try:
            s.block_until(lambda: (bool(self.items) and not self.poisoned) or any(e.flag for e in w.events), ('queue.get.worker',))
        finally:
            me.polling = None
        if self.items and not self.poisoned:
            return self.items.pop(0)
        raise Empty()

    def get_nowait(self):
        return self.get(False)


class VEvent(object):
    __deepcopy__ = lambda self, memo: self
    def __init__(self, *a, **k):
        self.w = W[0]
        self.flag = False
        self.w.events.append(self)

    def set(self):
        self.flag = True
        self.w.s.point(('event.set',))

    def clear(self):
        self.flag = False
        self.w.s.point(('event.clear',))

    def is_set(self):
        self.w.s.point(('event.is_set',))
        return self.flag

    def wait(self, timeout=None):
        self.w.s.block_until(lambda: self.flag, ('event.wait',))
        return True


def _shared_by_fork(self, memo):
    return self


class VProcess(object):
    __deepcopy__ = _shared_by_fork
    def __init__(self, group=None, target=None, name=None, args=(), kwargs=None, daemon=None):
        self.w = W[0]
        self.target, self.args, self.kwargs = target, args, kwargs or {}
        self.name = name
        self.daemon = bool(daemon)
        self.t = None
        self.pid = None
        self.tasks = 0
        self.traps_sigterm = False
        self.unkillable = False   # os.kill on it raises OSError (the library logs and carries on)
        self.exitcode = None

    def start(self):
        w = self.w
        self.pid = 1000 + len(w.procs)
        w.procs.append(self)
        target = self.target
        if hasattr(target, '__self__') and hasattr(target, '__func__'):
            # fork: the child works on its own copy of the parent's object graph - however deeply the library nests its state - while
            # the OS-level handles in it (queues, events, processes) stay shared (they copy to themselves, see _shared_by_fork)
            try:
                child_self = copy.deepcopy(target.__self__)
            except Exception:
                child_self = copy.copy(target.__self__)   # (an attribute that cannot be copied: the old one-level approximation)
            target = target.__func__.__get__(child_self)

        def body():
            try:
                target(*self.args, **self.kwargs)
            except SystemExit:
                pass
        self.t = w.s.spawn(body, 'worker%d' % self.pid)
        self.t.proc = self
        w.s.point(('process.start',))

    def is_alive(self):
        self.w.s.point(('process.is_alive',))
        return self.t is not None and not self.t.done and not self.t.killed

    def join(self, timeout=None):
        s = self.w.s
        if timeout is None:
            s.block_until(lambda: self.t.done or self.t.killed, ('process.join',))
            return
        # a timed join may expire although the worker would exit eventually (it is descheduled): budgeted environment choice
        s.block_until(lambda: self.t.done or self.t.killed or s.timer_budget > 0, ('process.join-timed',), timed=True)
        if not (self.t.done or self.t.killed):
            s.timer_budget -= 1
            self.w.clock += timeout

    def terminate(self):   # SIGTERM: a worker whose code traps the signal survives
        self.w.s.point(('process.terminate',))
        if not self.traps_sigterm:
            _freeze(self.t)

    def kill(self):        # SIGKILL
        self.w.s.point(('process.kill',))
        _freeze(self.t)

    def close(self):
        pass


def _freeze(t):
    t.killed = True
    q = getattr(t, 'polling', None)
    if q is not None:
        q.poisoned = True


def _kill(pid, sig):
    w = W[0]
    w.s.point(('os.kill',))
    for p in w.procs:
        if p.pid == pid:
            if p.unkillable:
                raise OSError('operation not permitted (injected)')
            if sig == real_signal.SIGKILL or not p.traps_sigterm:
                _freeze(p.t)
            return
    raise OSError('no such process')


_installed = {}


def install():
    """Rebinds the equalizer's OS seams (found by identity) to the virtual layer; returns what was found."""
    import playback.studio.equalizer as EQ
    if _installed:
        return _installed
    class _VMP(object):
        """The virtual `multiprocessing`: what is modelled is virtual, harmless helpers pass through, anything else that would create
        a real OS object is a harness error (exit 2), never silently real."""
        Queue, Event, Process = VQueue, VEvent, VProcess
        queues = types.SimpleNamespace(Empty=Empty, Full=Full, Queue=VQueue)
        active_children = staticmethod(lambda: [p for p in W[0].procs if p.t and not p.t.done and not p.t.killed])
        current_process = staticmethod(real_mp.current_process)
        PASS = ('TimeoutError', 'ProcessError', 'AuthenticationError', 'BufferTooShort', 'cpu_count', 'get_start_method', 'get_all_start_methods',
                'parent_process', 'freeze_support', 'log_to_stderr', 'get_logger', 'util')

        def get_context(self, *a, **k):
            return self

        def __getattr__(self, n):
            if n in self.PASS:
                return getattr(real_mp, n)
            from mc.core import HarnessError
            raise HarnessError('equalizer uses multiprocessing.%s, which the virtual layer does not model' % n)
    vmp = _VMP()
    virtual_clock = lambda: W[0].clock

    class _Os(object):
        def __getattr__(self, n):
            return getattr(real_os, n)
        kill = staticmethod(_kill)
    for n, v in list(vars(EQ).items()):
        if v is real_mp:
            setattr(EQ, n, vmp)
            _installed[n] = 'multiprocessing'
        elif v is real_os:
            setattr(EQ, n, _Os())
            _installed[n] = 'os'
        elif any(v is f for f in (real_time.time_ns, real_time.monotonic_ns, real_time.perf_counter_ns)):
            _installed[n] = 'time.' + v.__name__
            setattr(EQ, n, lambda: int(W[0].clock * 1e9))
        elif any(v is f for f in (real_time.time, real_time.monotonic, real_time.perf_counter)):
            _installed[n] = 'time.' + v.__name__
            setattr(EQ, n, virtual_clock)
        elif v is real_time:
            shim = types.SimpleNamespace(**{k: getattr(real_time, k) for k in dir(real_time) if not k.startswith('__')})
            shim.time = shim.monotonic = shim.perf_counter = virtual_clock
            shim.sleep = lambda d: None
            setattr(EQ, n, shim)
            _installed[n] = 'time'
        elif v is real_mp.Queue or v is real_mp.Event or v is real_mp.Process:
            setattr(EQ, n, {'Queue': VQueue, 'Event': VEvent, 'Process': VProcess}[v.__name__])
            _installed[n] = 'multiprocessing.' + v.__name__
    if not any(w.startswith('multiprocessing') for w in _installed.values()):   # (a module that reads no clock needs no clock seam)
        from mc.core import HarnessError
        raise HarnessError('equalizer module: multiprocessing seam not found (found %s): the seam scan must be extended' % sorted(_installed.values()))
    return _installed


def uninstall():
    import playback.studio.equalizer as EQ
    for n, what in _installed.items():
        setattr(EQ, n, {'multiprocessing': real_mp, 'os': real_os, 'time.time': real_time.time, 'time.monotonic': real_time.monotonic,
                        'time.time_ns': real_time.time_ns, 'time.monotonic_ns': real_time.monotonic_ns, 'time.perf_counter_ns': real_time.perf_counter_ns,
                        'time.perf_counter': real_time.perf_counter, 'time': real_time, 'multiprocessing.Queue': real_mp.Queue,
                        'multiprocessing.Event': real_mp.Event, 'multiprocessing.Process': real_mp.Process}[what])
    _installed.clear()


# ---------------------------------------------------------------------------------------------- harness around the real Equalizer
class FakeRecording(object):
    def __init__(self, i):
        self.id = i


class FakePlayback(object):
    def __init__(self, rid):
        self.original_recording = FakeRecording(rid)
        self.recorded_outputs = ('rec', rid)
        self.playback_outputs = ('play', rid)
        self.playback_duration = 0.0
        self.recorded_duration = 0.0


BEHAVIOURS = ['equal', 'different', 'player_raises', 'extractor_raises', 'comparator_raises', 'bare_status', 'exit', 'hang', 'late',
              'hang_traps_sigterm', 'spawns_child', 'late_unkillable', 'player_raises_badstr']


class BadStr(Exception):
    """An exception of the replayed code whose __str__ itself fails (so building the failure text fails too)."""

    def __str__(self):
        return 12345   # TypeError: __str__ returned non-string



def run_equalizer(behaviours, prefix, dedicated=True, timeout=2, recycle=5, keep=False, consumer=('drain',), max_steps=6000, timer_budget=0):
    """One execution of the REAL Equalizer.run_comparison over len(behaviours) recordings under schedule `prefix`."""
    from playback.studio.equalizer import Equalizer, EqualityStatus, ComparatorResult, CompareExecutionConfig
    install()
    s = S.Sched(prefix, trace_files=(), max_steps=max_steps, timer_budget=timer_budget)
    w = World(s)
    W[0] = w
    ids = ['r%d' % i for i in range(len(behaviours))]
    beh = dict(zip(ids, behaviours))

    def player(rid):
        b = beh[rid]
        cur = s.cur
        proc = getattr(cur, 'proc', None)
        if proc is not None:
            proc.tasks += 1
        w.log.append(('play', rid, proc.pid if proc else None))
        t0 = w.clock
        if b == 'player_raises':
            raise ValueError('player fails for ' + rid)
        if b == 'player_raises_badstr':
            raise BadStr()
        if b == 'exit':
            if proc is None:
                raise RuntimeError('exit only makes sense in a worker')
            raise SystemExit(1)
        if b in ('hang', 'hang_traps_sigterm'):
            if proc is not None:
                proc.traps_sigterm = b == 'hang_traps_sigterm'
            s.block_until(lambda: False, ('player.hang',))
        if b in ('late', 'late_unkillable'):
            if proc is not None:
                proc.unkillable = b == 'late_unkillable'
            if proc is None and b == 'late_unkillable':
                raise RuntimeError('needs a worker')
            s.block_until(lambda: w.clock - t0 > timeout, ('player.late',))
        if b == 'spawns_child' and proc is not None and proc.daemon:
            raise AssertionError('daemonic processes are not allowed to have children')
        return FakePlayback(rid)

    def extractor(outputs):
        rid = outputs[1]
        if beh[rid] == 'extractor_raises':
            raise KeyError('extractor fails for ' + rid)
        return outputs

    def comparator(rec, play):
        rid = rec[1]
        b = beh[rid]
        if b == 'comparator_raises':
            raise TypeError('comparator fails for ' + rid)
        if b == 'bare_status':
            return EqualityStatus.Fixed
        return ComparatorResult(EqualityStatus.Different if b == 'different' else EqualityStatus.Equal, rid)
    out = []
    res = {'consumer_exc': None, 'finished': False}

    def parent():
        eq = Equalizer(iter(ids), player, extractor, comparator,
                       compare_execution_config=CompareExecutionConfig(keep_results_in_comparison=keep, compare_in_dedicated_process=dedicated,
                                                                       compare_process_recycle_rate=recycle, compare_process_timeout=timeout))
        gen = eq.run_comparison()
        del eq
        t_prev = w.clock
        try:
            k = 0
            if consumer[0] in ('close', 'drop') and consumer[1] == 0:   # the caller changes its mind before taking anything
                if consumer[0] == 'close':
                    gen.close()
                gen = iter(())
            for c in gen:
                out.append({'id': c.recording_id, 'status': c.comparator_status.equality_status.name, 'message': c.comparator_status.message,
                            'playback': c.playback.original_recording.id if c.playback is not None else None,
                            'expected': c.expected, 'actual': c.actual, 'clock': w.clock, 'dt': w.clock - t_prev})
                t_prev = w.clock
                k += 1
                if consumer[0] == 'close' and k >= consumer[1]:
                    gen.close()
                    break
                if consumer[0] == 'raise' and k >= consumer[1]:
                    raise RuntimeError('consumer fails')
                if consumer[0] == 'drop' and k >= consumer[1]:
                    break
        except RuntimeError as e:
            res['consumer_exc'] = e
            gen.close()
            del gen
        res['finished'] = True
    import gc
    w.parent = s.spawn(parent, 'parent')
    was = gc.isenabled()
    gc.disable()   # abandonment must be cleaned up by reference counting, not by a lucky cyclic collection
    try:
        ok = s.run()
    finally:
        if was:
            gc.enable()
    alive = [p.pid for p in w.procs if p.t is not None and not p.t.done and not p.t.killed]
    return s, {'ok': ok, 'deadlock': s.deadlock, 'horizon': s.horizon, 'out': out, 'alive': alive, 'finished': res['finished'],
               'tasks': [(p.pid, p.tasks) for p in w.procs], 'procs': len(w.procs), 'clock': w.clock, 'log': w.log,
               'parent_exc': repr(w.parent.exc) if w.parent.exc is not None else None}
