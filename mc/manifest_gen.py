"""Regenerates /verif/MANIFEST.json from the table below (python -m mc.manifest_gen)."""
import json, os, subprocess

V = os.path.dirname(os.path.dirname(os.path.abspath(__file__)))
BASELINE = "cd /repo && /venv/bin/python -m pytest -ra -q -p no:cacheprovider --timeout=900 --continue-on-collection-errors"

# id -> (category, technique, text, note, design_ref)
CHECKS = {}


def add(pid, cat, technique, text, note):
    CHECKS[pid] = (cat, technique, text, note, 'DESIGN.md §3 ' + pid)


add('C14', 'exploration', 'bounded-exhaustive enumeration of (filter, metadata) pairs on the real matcher vs reference matcher',
    'Every filter of a closed universe (atoms, operator objects incl. None / dict / list operands, lists of <=2/3 alternatives, nested list, 2-key '
    'filters) against every recorded value (absent + 16 JSON values) is evaluated twice on the real matcher and through listings of the in-memory and the S3 (fake bucket) cassette and compared with a reference '
    'matcher written from the documentation; totality (never raises) and determinism are part of the oracle. Exhaustive within the universe.',
    'Reference matcher encodes the documented semantics; values outside the universe are not covered; operator objects with value None excluded.')

add('C03', 'exploration', 'bounded-exhaustive enumeration of (recorded program, edited replay program) pairs on the real recorder vs reference maps',
    'Every output-call program up to the length bound (4 output styles x argument shapes, both endings, 1..12 calls per alias) is recorded on the real '
    'recorder and replayed as itself and as every single behavioural edit (thorough: pairs of edits); the recorded and the playback output maps '
    '(alias, per-alias ordinal) -> arguments, plus the operation entry, must equal the maps of a reference interpreter entry by entry.',
    'Reference interpreter (mc/progs.py ref/ref_replay) encodes the documented capture semantics; values limited to the enumerated universe; in-memory cassette.')

add('C01', 'model_checking', 'bounded-exhaustive enumeration of recorder programs on the real recorder x every cassette type, compared with the recording run and a reference interpreter',
    'Every program up to the length bound over a 25-letter alphabet (all decorator styles, resolvers, capture subsets, handlers, fallback, nesting, '
    'raising bodies, worker thread, type-colliding arguments, copy-on-interception with post-capture mutation, long tails) is recorded on the real '
    'recorder, saved, fetched from a fresh cassette object of each type (memory / file / S3 on a fake bucket) and replayed: every interception must '
    'observe what it observed while recording, no body may run, playback outputs must equal recorded outputs one for one. Exhaustive within the bound.',
    'Values limited to the measured faithful domain of the pinned jsonpickle; S3 through an in-memory fake of the six boto3 calls the facade uses; '
    'concurrently issued same-alias outputs excluded (ordinal is schedule dependent by design).')
add('C02', 'exploration', 'exhaustive product of missing-key options x present/absent probe programs x replays on the real recorder vs reference policy',
    'Full product of the missing-key options (5 fallback kinds x run-original x 9 substitutes incl. falsy and callable; fail-on-missing x defaults) over '
    'probe programs whose calls are present or absent in the recording, with recording enabled/disabled, two consecutive replays, replays after a replay '
    'that failed with an escaping missing-key error, nested interceptions under run-original, and unknown ids on every cassette; observations, executed '
    'bodies, cassette traffic and store bytes are compared with the documented policy order.',
    'Policy order as documented (fallbacks, run original, substitute, else RecordingKeyError); full product on the in-memory cassette, slice on file and S3(fake).')

add('C04', 'model_checking', 'exhaustive fault-placement enumeration vs undecorated twin (sequential) + preemption-bounded schedule exploration of worker-thread programs on the real recorder',
    'Sequential: every base program (8 letters incl. a joined worker thread, length <=2/3; quick uses a covering set of 2-letter bases) x every single and paired placement of the tolerated faults (key failure, handler failure, '
    'unserialisable value / failing copy, exception or interrupt in a body, discard/force in a body or between steps) x endings x 23 global variants '
    '(extractor kinds incl. junk, failing save, sampling, copy-on, class-level, subclass, skipped, disabled) is run decorated and undecorated: identical '
    'returned / raised objects, every body exactly once with the identical argument objects, no framework exception into the service, no cassette '
    'traffic when disabled. Threaded: see DESIGN §3 C04.',
    'Twin = same interpreter with identity decorators; in-memory cassette; python -O not considered.')
add('C05', 'fault_enumeration', 'exhaustive single/pair fault-placement enumeration on the real recorder with a spy cassette vs reference finalisation semantics',
    'Every base program (7 letters incl. an interception on a joined worker thread) x every single and paired placement of capture faults, discards, sampling outcomes, ordinary / library-typed exceptions and interrupts at every '
    'step boundary and inside every intercepted body (plus discard/force issued from the metadata extractor) x endings x global variants: the spy '
    'cassette must see create -> exactly one of save/abort, saved iff the reference says every interception was captured and the policy keeps it, the '
    'store must hold exactly the captured interceptions, a fault-free second operation must work, and every stored complete recording is replayed '
    'without a missing-key error.',
    'Reference finalisation semantics of DESIGN appendix A; BaseException caught by the program itself is outside the quantifier.')
add('C18', 'fault_enumeration', 'exhaustive termination-point x extractor-kind enumeration on the real recorder; metadata fetched back from every cassette vs reference',
    'The same program x fault-placement space with termination by return / ordinary exception / interrupt at every step boundary and inside every body, '
    'instance / class-level / subclass operations, 10 extractor kinds, recording disabled mid-run; metadata fetched back from the cassette (memory; '
    'file and S3(fake) for a slice) must state class, duration == harness clock delta, UTC timestamp, incomplete, exception flag and exactly the '
    'extractor\'s keys (none if it failed); the default lookup returns exactly the complete recordings.',
    'Harness clock replaces time()/datetime in tape_recorder (seams found by scanning); timestamp expected in UTC as on the pinned tree.')

add('C09', 'model_checking', 'explicit-state BFS over run histories on one real recorder object (state = canonical recorder fields) + exhaustive depth-bounded histories with differential probes vs a fresh recorder',
    'BFS over a 39-letter alphabet of runs (normal, raising, interrupted at three places, discarded four ways, sampled out, forced, failing save / '
    'extractor / metadata write, skipped, disabled, worker-thread interceptions, seven kinds of replay) on ONE recorder: the canonical state '
    '(all instance attributes + interception flag on main and pool thread) is searched to closure and the idle invariant is checked in every state; '
    'in addition every history up to depth 2 (quick) / 3 (thorough) is followed by each of 10 probes whose recording / Playback must equal the same '
    'probe on a fresh recorder.',
    'RNG abstracted to the draw counter; recorder state = instance attributes + thread-local flag (module-level state is only covered by the probes).')
add('C17', 'model_checking', 'exhaustive decision table with scripted draws + explicit-state history search over classes sharing one recorder + deterministic seeded differential runs',
    'All 4320 rows of skipped x rate x force x ignore x discard x outcome x scripted draw (incl. draw == rate and rate +- 1e-9) are decided on the '
    'real recorder and compared with the documented policy, draws consumed included; all histories up to depth 2/3 of 48 run letters over five classes '
    'with different parameters on one recorder (forcing must not leak); seeded histories (same seed twice, paired history differing only in content and '
    'outcome) against Random(seed), seeds 0, 1, 110613 and VERIF_SEED; the S3 sampling calculator with scripted draws and its seeded sequence for two '
    'cassettes in one process.',
    'kept iff draw <= rate as the recorder logs; PRNG uniformity trusted; scripted draws injected through the private Random instance.')

add('C06', 'exploration', 'exhaustive enumeration of a closed argument universe recorded in one operation and replayed in-process (reordered) and in child processes with other hash seeds',
    'Every tree-shaped value of the universe (10 atoms; list / tuple / set / dict / object constructors, <=2 children, depth 1 quick / 2 thorough) is a '
    'call of one operation with a unique result, for 10 call configurations; on replay each call must receive exactly the value recorded for the call '
    'with the same reference identity (resolved alias + captured argument values, type-aware, unordered sets/dicts) - in the original and reversed '
    'insertion order, on another instance, with other excluded arguments, and in three child processes with PYTHONHASHSEED 1,2,3. All pairs of the '
    'universe are thereby checked for key collisions and every value for key stability. One known finding (sets with >=2 elements, F8).',
    'Keys are judged by replay behaviour, never by text; positional-vs-keyword equivalence is not demanded.')
add('C11', 'exploration', 'exhaustive product of mutable value shapes x read paths x second observations x cassettes on the real recordings/cassettes/recorder',
    'Every mutable shape (incl. tuples holding mutables, shared sub-lists, exceptions with mutable attributes) is stored and read back through every '
    'read path; every mutable node reached is mutated in place; the second observation (same object, refetch from the same cassette object, fresh '
    'cassette object, second replay) must equal the pristine value and share no object with the first; copy-on-interception with post-capture mutation.',
    'get_metadata() of one recording object and get_data_direct are not required to copy; independence is demanded between fetches.')

add('C07', 'model_checking', 'exhaustive content universe + exhaustive save/fetch histories up to a depth bound on every real cassette type vs a reference store',
    'Content: every combination of 0..3 keys from 11 hostile key texts with values rotating through the universe (incl. objects shared between keys '
    'and between data and metadata) x 5 metadata kinds on memory, file and S3 (prefix none / p / p/q, fake bucket). Histories: every sequence up to '
    'depth 3/4 over save / re-save / get / get-metadata of three recordings in two categories and fetches of never-saved ids; each fetch goes through a '
    'long-lived reader object, is compared with a reference store, and the fetched copy is tampered with afterwards.',
    'Contents limited to the measured faithful domain of the pinned jsonpickle; S3 behind an in-memory fake bucket.')
add('C10', 'model_checking', 'exhaustive enumeration of saved sets x queries on 7 real cassette configurations vs reference matcher',
    'Every set of <=3 (thorough 4) saved recordings over 11 kinds (categories that are prefixes of one another / contain underscores, metadata absent '
    'or present, four incomplete-flag states, optional re-save) x every query (5 categories x 9 filters x 4 limits x ordered/random, and the studio '
    'lookup with/without skip-incomplete) on memory, file (two directory orders), S3 with prefixes none / p / pp in one shared bucket with foreign '
    'recordings, and a read-only S3 view: no duplicates, subset of the reference, exact size, every id fetchable.',
    'limit=0 excluded; listing order not demanded; crash in the middle of a file save is outside the quantifier.')

add('C15', 'model_checking', 'exhaustive call histories on real S3 cassettes over a fake bucket with mutation log + crash-point enumeration after every bucket mutation of every save',
    'Cassette A in all 16 combinations of read_only x transient x key prefix (none, a, ab, a/b) plus a writable neighbour cassette B share one bucket '
    'pre-loaded with recordings of all prefixes and foreign objects; every history up to depth 3/4 over 10 calls (calls that raise are continued past), plus a category that looks like an absolute path, every single rejected put request, and a transient close over 1001 recordings (paged listing / bulk delete): '
    'a read-only cassette never mutates and refuses create/save, every mutated key lies under the cassette\'s own full/ or metadata/ root, closing a '
    'transient writable cassette removes all its own keys and leaves every other object byte-identical, and after EVERY individual bucket mutation of '
    'EVERY save every id any prefix view can list is completely fetchable (recording and metadata).',
    'Fake bucket: strongly consistent, atomic single-object put/delete, lexicographic listing; boto3 itself not exercised; python -O not considered.')
add('C16', 'exploration', 'exhaustive grid of (start, end | now) windows x recordings at day boundaries on the real S3 cassette with harness clock',
    'All windows with start <= end on a 30-minute grid over three days (thorough: plus 1-minute grid around each midnight), start > end, and end '
    'defaulting to now, over 16 recordings placed at 00:00 / 00:30 / 12:00 / 23:30 / 23:59 / 00:01 of each day in two categories, written by one '
    'cassette that stays open across midnights with ids whose key order is not chronological; with and without metadata filter and limit: result == '
    'exactly the recordings inside the window.',
    'Process clock in UTC; created and saved at the same instant; fake bucket stamps last_modified from the harness clock.')
add('C20', 'exploration', 'exhaustive product of contents x limits x handlers x styles x path passing x cassettes, each a full record/save/fetch/replay trip on the real handlers',
    'Every content (empty, NUL, binary, CRLF text, the placeholder text, 1 KiB, exactly limit-1 / limit / limit+1 bytes) x limit (explicit 16 B, 1 KiB, '
    '1 MB, 0; environment 1, 1.0, 2; default) x input/output handler x instance/static x positional/keyword path x memory/file/S3(fake): the file restored '
    'at the path named by the REPLAYED call (different from the recorded one) and the output holder content are byte-identical or the placeholder, files '
    'above the limit are never opened while recording (open() journalled), bodies do not run in replay; plus same path intercepted twice with same-size '
    'same-mtime rewritten content.',
    'Whole-MB or exact binary-fraction limits only; concurrent use of one handler from several threads is outside the quantifier.')

add('C19', 'model_checking', 'exhaustive enumeration of recording sets x selections x failing-tuner subsets x generator-consumption interleavings on the real studio, journalled tunings',
    'Every assignment of <=3 (thorough 4) recordings to the categories Op / OpX / Op_X (real operation classes) x explicit id lists in every permutation '
    '(and with a repeated id) or lookup-driven selection with limits x tuner failing for every subset of categories (with a message and argument-less) x '
    'every interleaving of next() over the per-category generators and early abandonment, on memory, file and S3(fake) cassettes: each selected recording '
    'is replayed exactly once by the playback function / extractor / comparator created for its own category, categories are reported in deterministic '
    'order, a failing tuner yields its own error object for that category only.',
    'In-process execution only (worker routing is C08); lookup window is "last day" on the real clock (windows are C16).')

add('C12', 'model_checking', 'stateless exploration of all thread interleavings up to a preemption bound (iterative context bounding) of the real async cassette under a hand-written baton scheduler',
    'The real AsyncRecordOnlyTapeCassette/AsyncRecording run with Lock, Event and Thread replaced by scheduler-owned ones; seven workloads (1-3 producers, '
    'closer, flusher) x every placement of one failing wrapped operation x flush-timer budgets 0..2 are explored under ALL interleavings with <=1 '
    'preemption (quick; W1/W2 also <=2) / <=2 (thorough), scheduling points at every line of the module, every opcode of the functions touching the '
    'buffer or its lock, and every storage call: every requested operation is applied exactly once in request order, the final store equals the '
    'synchronous twin minus the failing operation, the wrapped cassette is closed last, no storage call happens under the buffer lock, no deadlock.',
    'join(timeout) modelled as not timing out; opcode-granular preemption over-approximates CPython; the schedule bound completed per workload is listed in the evidence.')

add('C08', 'model_checking', 'stateless exploration of all parent/worker schedules up to a preemption bound of the real Equalizer on a virtual multiprocessing + virtual time layer; real-process conformance in thorough',
    'The real Equalizer code (comparison loop, worker loop, timeout / kill / recycle) runs on scheduler-owned Queue / Event / Process / os.kill / time; every '
    'behaviour vector over 13 per-recording behaviours (equal, different, three kinds of raise, an exception whose __str__ fails, bare status, worker exits, hangs, '
    'answers just after the parent gave up (killable or not), hangs trapping SIGTERM, replay spawning a child) up to length 2 x 14 configurations (recycle, keep, '
    'timeouts 0 / 0.5 / 1.5 / 2) at preemption bound 2 and length 3 on two configurations '
    '(thorough: 3 full / 4 reduced, bound 2) is explored under every schedule: one comparison per id in input order, verdict / failure text / attached replay '
    '/ kept results of that id alone; in-process mode agrees; thorough replays 700 late-free vectors on real multiprocessing and compares verdict sequences.',
    'Virtual process = real worker loop on a shallow copy of the Equalizer (fork semantics); zero-time steps, time advances only on an expired parent poll; '
    'killing a polling worker poisons that queue.')
add('C13', 'model_checking', 'stateless schedule exploration of the real Equalizer on virtual multiprocessing / virtual time with consumer behaviours; real-process runs in thorough',
    'Every vector over {ok, exit, hang, late answer (killable or not), hang trapping SIGTERM, failure whose text cannot be built} up to length 3 (thorough 4) x '
    'recycle {1,2,3} x timeout {0,0.5,1,3} virtual seconds, drained, closed after k items, aborted by a consumer exception after k items or simply dropped after k '
    'items with the cyclic GC off (every k), under every schedule up to the preemption bound: every '
    'execution terminates (deadlock and step horizon are violations), no virtual process is alive afterwards, each comparison takes <= timeout + 2 virtual '
    'seconds (a dead worker is reported within one poll), no worker serves more replays than the recycle rate and exactly the implied number of workers is '
    'started; thorough adds real-process runs (children gone within 1 s, wall time within timeout + slack).',
    'Time bounds are decided in virtual time; real-time behaviour only in the thorough conformance runs; garbage-collected generators are closed by CPython.')

NOT_YET = {}


def main():
    props = [json.loads(l)['id'] for l in open(os.path.join(V, 'properties.jsonl'))]
    checks = []
    for pid in props:
        if pid not in CHECKS:
            continue
        cat, tech, text, note, ref = CHECKS[pid]
        checks.append({
            'property_id': pid,
            'quick_cmd': './mcheck check %s --tier quick' % pid,
            'thorough_cmd': './mcheck check %s --tier thorough' % pid,
            'evidence_file': '/verif/evidence/%s.json' % pid,
            'replay_cmd_template': './mcheck replay {path}',
            'engine': 'mc',
            'level_claimed': {'category': cat, 'text': text, 'design_ref': ref},
            'level_note': note,
            'technique': tech,
        })
    na = [{'property_id': p, 'reason': NOT_YET.get(p, 'check not built yet in this session (planned, see DESIGN.md §3); not claimed until its check runs clean')}
          for p in props if p not in CHECKS]
    m = {
        'version': 1,
        'setup_cmd': './mcheck selfcheck',
        'hooks': {'guard': 'PLAYBACK_VERIF', 'enable': 'no source hooks: all seams are reached by rebinding module-level names from the harness (export PLAYBACK_VERIF=1 is set by ./mcheck but nothing in /repo reads it)',
                  'baseline_off_cmd': BASELINE, 'source_commits': [], 'add_only': True},
        'engines': [{'name': 'mc', 'path': '/verif/mc', 'serves_properties': sorted(CHECKS),
                     'kind_free_text': 'hand-written bounded-exhaustive explorer driving the real implementation: sequence/fault enumeration, explicit-state BFS over histories, preemption-bounded thread scheduler, virtual multiprocessing, fake S3 bucket with mutation log'}],
        'checks': checks,
        'not_applicable': na,
        'notes': 'All checks run the implementation imported from /repo (editable install) with /venv/bin/python; see DESIGN.md.',
    }
    with open(os.path.join(V, 'MANIFEST.json'), 'w') as f:
        json.dump(m, f, indent=1)
    import jsonschema
    jsonschema.validate(m, json.load(open('/root/.vp/MANIFEST.schema.json')))
    print('MANIFEST ok: %d checks, %d not_applicable' % (len(checks), len(na)))


if __name__ == '__main__':
    main()
