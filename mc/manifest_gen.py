"""Regenerates /verif/MANIFEST.json from the table below (python -m mc.manifest_gen)."""
import json, os, subprocess

V = os.path.dirname(os.path.dirname(os.path.abspath(__file__)))
BASELINE = "cd /repo && /venv/bin/python -m pytest -ra -q -p no:cacheprovider --timeout=900 --continue-on-collection-errors"

# id -> (category, technique, text, note, design_ref)
CHECKS = {}


def add(pid, cat, technique, text, note):
    CHECKS[pid] = (cat, technique, text, note, 'DESIGN.md §3 ' + pid)


add('C14', 'exploration', 'bounded-exhaustive enumeration of (filter, metadata) pairs on the real matcher vs reference matcher',
    'Every filter of a closed universe (atoms, operator objects, lists of <=2/3 alternatives, nested list, 2-key filters) against every recorded '
    'value (absent + 15 JSON values) is evaluated twice on the real matcher and through a real cassette listing and compared with a reference '
    'matcher written from the documentation; totality (never raises) and determinism are part of the oracle. Exhaustive within the universe.',
    'Reference matcher encodes the documented semantics; values outside the universe are not covered; operator objects with value None excluded.')

add('C03', 'exploration', 'bounded-exhaustive enumeration of (recorded program, edited replay program) pairs on the real recorder vs reference maps',
    'Every output-call program up to the length bound (4 output styles x argument shapes, both endings, 1..12 calls per alias) is recorded on the real '
    'recorder and replayed as itself and as every single behavioural edit (thorough: pairs of edits); the recorded and the playback output maps '
    '(alias, per-alias ordinal) -> arguments, plus the operation entry, must equal the maps of a reference interpreter entry by entry.',
    'Reference interpreter (mc/progs.py ref/ref_replay) encodes the documented capture semantics; values limited to the enumerated universe; in-memory cassette.')

NOT_YET = {}


def main():
    props = [json.loads(l)['id'] for l in open(os.path.join(V, 'properties.jsonl'))]
    checks = []
    for pid in props:
        if pid not in CHECKS:
            continue
        cat, tech, text, note, ref = CHECKS[pid]
        checks.append({
            'property_id': pid,
            'quick_cmd': './mcheck check %s --tier quick' % pid,
            'thorough_cmd': './mcheck check %s --tier thorough' % pid,
            'evidence_file': '/verif/evidence/%s.json' % pid,
            'replay_cmd_template': './mcheck replay {path}',
            'engine': 'mc',
            'level_claimed': {'category': cat, 'text': text, 'design_ref': ref},
            'level_note': note,
            'technique': tech,
        })
    na = [{'property_id': p, 'reason': NOT_YET.get(p, 'check not built yet in this session (planned, see DESIGN.md §3); not claimed until its check runs clean')}
          for p in props if p not in CHECKS]
    m = {
        'version': 1,
        'setup_cmd': './mcheck selfcheck',
        'hooks': {'guard': 'PLAYBACK_VERIF', 'enable': 'no source hooks: all seams are reached by rebinding module-level names from the harness (export PLAYBACK_VERIF=1 is set by ./mcheck but nothing in /repo reads it)',
                  'baseline_off_cmd': BASELINE, 'source_commits': [], 'add_only': True},
        'engines': [{'name': 'mc', 'path': '/verif/mc', 'serves_properties': sorted(CHECKS),
                     'kind_free_text': 'hand-written bounded-exhaustive explorer driving the real implementation: sequence/fault enumeration, explicit-state BFS over histories, preemption-bounded thread scheduler, virtual multiprocessing, fake S3 bucket with mutation log'}],
        'checks': checks,
        'not_applicable': na,
        'notes': 'All checks run the implementation imported from /repo (editable install) with /venv/bin/python; see DESIGN.md.',
    }
    with open(os.path.join(V, 'MANIFEST.json'), 'w') as f:
        json.dump(m, f, indent=1)
    import jsonschema
    jsonschema.validate(m, json.load(open('/root/.vp/MANIFEST.schema.json')))
    print('MANIFEST ok: %d checks, %d not_applicable' % (len(checks), len(na)))


if __name__ == '__main__':
    main()
