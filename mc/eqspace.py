"""Shared exploration of the real Equalizer on the virtual multiprocessing layer (C08 verdicts, C13 liveness/bounds)."""
from __future__ import annotations

from mc import sched as S, vmp
from mc.core import HarnessError, viol

NEEDS_WORKER = ('exit', 'hang', 'late', 'hang_traps_sigterm', 'late_unkillable')


def ref_verdict(b):
    return {'equal': ('Equal', None), 'different': ('Different', None), 'bare_status': ('Fixed', None), 'spawns_child': ('Equal', None),
            'player_raises': ('EqualizerFailure', 'player fails'), 'extractor_raises': ('EqualizerFailure', 'extractor fails'),
            'comparator_raises': ('EqualizerFailure', 'comparator fails'), 'exit': ('EqualizerFailure', 'died'),
            'hang': ('EqualizerFailure', 'timeout'), 'late': ('EqualizerFailure', 'timeout'), 'hang_traps_sigterm': ('EqualizerFailure', 'timeout'),
            'late_unkillable': ('EqualizerFailure', 'timeout'), 'player_raises_badstr': ('EqualizerFailure', None)}[b]


def expected_procs(vec, recycle):
    cur, age, n = None, 0, 0
    per = []
    for b in vec:
        if cur is None or age >= recycle:
            n += 1
            cur, age = n, 0
            per.append(0)
        age += 1
        per[-1] += 1
        if b in NEEDS_WORKER:
            cur = None
    return n, per


def judge_verdicts(vec, res, keep, label):
    viols = []
    ids = ['r%d' % i for i in range(len(vec))]
    out = res['out']
    if [o['id'] for o in out] != ids:
        viols.append(viol('verdicts:ids:%s' % ('missing' if len(out) < len(ids) else 'extra' if len(out) > len(ids) else 'order'),
                          '%s: exactly one comparison per id, in input order, labelled with that id' % label, ids, [o['id'] for o in out]))
        return viols
    for i, (b, o) in enumerate(zip(vec, out)):
        status, text = ref_verdict(b)
        if o['status'] != status:
            viols.append(viol('verdicts:status:%s-for-%s' % (o['status'], b), '%s: recording %s (behaviour %s, vector %s)' % (label, o['id'], b, list(vec)), status, (o['status'], o['message'])))
            continue
        if o['playback'] is not None and o['playback'] != o['id']:
            viols.append(viol('verdicts:foreign-playback', '%s: comparison of %s carries the replay of %s (vector %s)' % (label, o['id'], o['playback'], list(vec)), o['id'], o['playback']))
        if text and text not in str(o['message']):
            viols.append(viol('verdicts:failure-text:%s' % b, '%s: failure verdict of %s should say %r' % (label, o['id'], text), text, o['message']))
        if status == 'Equal' and b != 'spawns_child' and o['message'] != o['id']:
            viols.append(viol('verdicts:foreign-verdict', '%s: verdict attached to %s was computed for %s' % (label, o['id'], o['message']), o['id'], o['message']))
        for name, val, own in (('expected', o['expected'], ('rec', o['id'])), ('actual', o['actual'], ('play', o['id']))):
            if val is not None and val != own:   # whatever a comparison carries was extracted from ITS recording / replay (failures included)
                viols.append(viol('verdicts:foreign-results', '%s: comparison of %s (behaviour %s) carries %s results of another recording (vector %s)' % (label, o['id'], b, name, list(vec)), own, val))
        if status in ('Equal', 'Different', 'Fixed'):
            if o['playback'] != o['id']:
                viols.append(viol('verdicts:playback-missing', '%s: successful comparison without its replay' % label, o['id'], o['playback']))
            exp = (('rec', o['id']), ('play', o['id'])) if keep else (None, None)
            if (o['expected'], o['actual']) != exp:
                viols.append(viol('verdicts:kept-results', '%s: expected/actual kept in the comparison (keep=%s)' % (label, keep), exp, (o['expected'], o['actual'])))
    return viols


def judge_liveness(vec, res, cfg, label, consumed=None):
    viols = []
    timeout, recycle = cfg['timeout'], cfg['recycle']
    if res['deadlock'] and res['finished']:
        viols.append(viol('liveness:worker-left-behind', '%s: the run is over but a worker process never ends (vector %s)' % (label, list(vec)), [], res['alive']))
        return viols
    if not res['ok'] or not res['finished']:
        viols.append(viol('liveness:%s' % ('deadlock' if res['deadlock'] else 'step-horizon' if res['horizon'] else 'parent-died'),
                          '%s: the comparison run must terminate (vector %s)' % (label, list(vec)), 'terminates', (res['deadlock'], res['horizon'], res['parent_exc'])))
        return viols
    if res['alive']:
        viols.append(viol('liveness:worker-left-behind', '%s: worker processes still alive after the run completed / was abandoned (vector %s)' % (label, list(vec)), [], res['alive']))
    n = len(res['out'])
    for b, o in zip(vec, res['out']):
        limit = timeout + 2   # 'within roughly that timeout' - for a worker that died as for one that hangs (poll granularity 1 s + clean-up)
        if o['dt'] > limit + 1e-9:
            viols.append(viol('time:%s' % ('dead-worker-detected-late' if b == 'exit' else 'comparison-exceeds-timeout'),
                              '%s: comparison of behaviour %s took %s virtual seconds (timeout %s)' % (label, b, o['dt'], timeout), '<= %s' % limit, o['dt']))
            break
    over = [t for t in res['tasks'] if t[1] > recycle]
    if over:
        viols.append(viol('recycle:worker-served-too-many', '%s: a worker served more replays than the recycle rate %d' % (label, recycle), '<= %d' % recycle, res['tasks']))
    if consumed is None:   # run drained: the number of workers started is exactly what the policy implies
        exp_n, per = expected_procs(vec, recycle)
        if res['procs'] != exp_n:
            viols.append(viol('recycle:workers-started:%s' % ('too-few' if res['procs'] < exp_n else 'too-many'),
                              '%s: workers started over vector %s with recycle rate %d' % (label, list(vec), recycle), exp_n, res['procs']))
    return viols


def explore_config(vec, cfg, bound, consumer=('drain',), want=('verdicts', 'liveness'), timer_budget=0):
    def run_one(prefix):
        return vmp.run_equalizer(vec, prefix, dedicated=True, timeout=cfg['timeout'], recycle=cfg['recycle'], keep=cfg['keep'], consumer=consumer, timer_budget=timer_budget)
    ex = S.explore(run_one, bound, max_execs=60000, stop_on=lambda s, res: res['horizon'] or res['deadlock'])
    stopped_early = ex['capped'] and any(r['horizon'] or r['deadlock'] for _, r in ex['results'])
    if stopped_early:
        ex['capped'] = False   # the exploration ended on a reported liveness violation, not on a budget
    viols = []
    outcomes = set()
    label = 'dedicated process, recycle %d, timeout %s, keep %s, consumer %s' % (cfg['recycle'], cfg['timeout'], cfg['keep'], consumer)
    consumed = None if consumer[0] == 'drain' else consumer[1]

    def judge(res):
        vs = []
        if 'verdicts' in want and res['ok'] and res['finished']:
            vs += judge_verdicts(vec if consumed is None else vec[:consumed], res, cfg['keep'], label)
        elif 'verdicts' in want and 'liveness' not in want:
            vs.append(viol('verdicts:run-did-not-finish', '%s: the comparison run never finished, so later ids got no verdict (vector %s)' % (label, list(vec)),
                           'one verdict per id', [o['id'] for o in res['out']]))
        if 'liveness' in want:
            vs += judge_liveness(vec, res, cfg, label, consumed)
        return vs
    for choices, res in ex['results']:
        outcomes.add(repr(([(o['id'], o['status'], o['playback'], o['dt']) for o in res['out']], res['alive'], res['procs'], res['ok'])))
        for v in judge(res):
            if not any(x['sig'] == v['sig'] for x in viols):
                v['schedule'] = choices
                viols.append(v)
    if viols:   # the reported schedule must reproduce its violation
        s2, r2 = vmp.run_equalizer(vec, viols[0]['schedule'], dedicated=True, timeout=cfg['timeout'], recycle=cfg['recycle'], keep=cfg['keep'], consumer=consumer, timer_budget=timer_budget)
        if viols[0]['sig'] not in [v['sig'] for v in judge(r2)]:
            raise HarnessError('schedule did not reproduce its violation: nondeterminism not owned')
    return ex, viols, outcomes


def replay_schedule(vec, cfg, consumer, schedule, want, timer_budget=0):
    label = 'dedicated process, recycle %s, timeout %s, keep %s, consumer %s' % (cfg['recycle'], cfg['timeout'], cfg['keep'], consumer)
    s1, r1 = vmp.run_equalizer(vec, schedule, dedicated=True, timeout=cfg['timeout'], recycle=cfg['recycle'], keep=cfg['keep'], consumer=consumer, timer_budget=timer_budget)
    s2, r2 = vmp.run_equalizer(vec, schedule, dedicated=True, timeout=cfg['timeout'], recycle=cfg['recycle'], keep=cfg['keep'], consumer=consumer, timer_budget=timer_budget)
    if repr(r1['out']) != repr(r2['out']):
        raise HarnessError('the same schedule gave two different executions: nondeterminism not owned')
    print('comparisons yielded:', [(o['id'], o['status'], o['message'], o['playback'], o['dt']) for o in r1['out']])
    print('workers:', r1['tasks'], 'alive afterwards:', r1['alive'], 'deadlock:', r1['deadlock'], 'horizon:', r1['horizon'])
    consumed = None if consumer[0] == 'drain' else consumer[1]
    vs = []
    if 'verdicts' in want and r1['ok'] and r1['finished']:
        vs += judge_verdicts(vec if consumed is None else vec[:consumed], r1, cfg['keep'], label)
    elif 'verdicts' in want and 'liveness' not in want:
        vs.append(viol('verdicts:run-did-not-finish', 'the comparison run never finished', 'one verdict per id', [o['id'] for o in r1['out']]))
    if 'liveness' in want:
        vs += judge_liveness(vec, r1, cfg, label, consumed)
    return vs
