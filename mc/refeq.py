"""Type-aware structural equality and canonical forms used by every oracle (DESIGN appendix A)."""
from __future__ import annotations


def canon(v, _depth=0):
    """Hashable canonical form: 1, True, 1.0 differ; list != tuple; sets/dicts unordered; objects by class + attributes;
    exceptions by type only (the serializer keeps nothing else)."""
    if _depth > 12:
        return ('deep',)
    t = type(v)
    if v is None or t in (bool, int, float, str, bytes):
        return (t.__name__, v)
    if t in (list, tuple):
        return (t.__name__,) + tuple(canon(x, _depth + 1) for x in v)
    if t in (set, frozenset):
        return (t.__name__,) + tuple(sorted((canon(x, _depth + 1) for x in v), key=repr))
    if isinstance(v, dict):
        return ('dict',) + tuple(sorted(((canon(k, _depth + 1), canon(x, _depth + 1)) for k, x in v.items()), key=repr))
    if isinstance(v, BaseException):
        return ('exc', t.__name__)
    if isinstance(v, type):
        return ('class', v.__module__, v.__qualname__)
    if hasattr(v, '__dict__'):
        return ('obj', t.__module__, t.__qualname__, canon(dict(vars(v)), _depth + 1))
    return ('repr', t.__name__, repr(v))


def teq(a, b):
    return canon(a) == canon(b)


def mutable_nodes(v, _seen=None):
    """All mutable container/object nodes reachable from v (for aliasing checks)."""
    out = []
    if _seen is None:
        _seen = set()
    if id(v) in _seen:
        return out
    _seen.add(id(v))
    if isinstance(v, (list, dict, set)) or (hasattr(v, '__dict__') and not isinstance(v, (type, BaseException))):
        out.append(v)
    if isinstance(v, (list, tuple, set, frozenset)):
        for x in v:
            out += mutable_nodes(x, _seen)
    elif isinstance(v, dict):
        for x in v.values():
            out += mutable_nodes(x, _seen)
    elif hasattr(v, '__dict__') and not isinstance(v, type):
        for x in vars(v).values():
            out += mutable_nodes(x, _seen)
    return out
