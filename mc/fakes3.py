"""In-memory fake of exactly what S3BasicFacade uses from boto3, with a mutation log (DESIGN §2.4).

Assumptions (recorded in evidence): S3 is strongly consistent read-after-write, lists in lexicographic key order, a single
put/delete of one object is atomic. boto3 itself is not exercised."""
from __future__ import annotations

import datetime
import io

import pytz


class NoSuchKey(Exception):
    pass


class Store(object):
    def __init__(self, clock=None):
        self.objs = {}      # key -> (bytes, last_modified, extra)
        self.log = []       # ('put'|'delete', key, actor)
        self.snaps = []     # bucket snapshot BEFORE each logged mutation (for crash-point enumeration)
        self.clock = clock or (lambda: datetime.datetime(2020, 1, 1, tzinfo=pytz.utc))
        self.actor = None
        self.reads = 0

    def snapshot(self):
        return dict(self.objs)

    def mutate(self, kind, key, value=None):
        self.snaps.append(self.snapshot())
        self.log.append((kind, key, self.actor))
        if kind == 'put':
            self.objs[key] = value
        else:
            del self.objs[key]


class _Obj(object):
    def __init__(self, st, key):
        self.st, self.key = st, key

    @property
    def last_modified(self):
        return self.st.objs[self.key][1]

    def get(self):
        self.st.reads += 1
        return {'Body': io.BytesIO(self.st.objs[self.key][0])}


class _Coll(object):
    def __init__(self, st, prefix):
        self.st, self.prefix = st, prefix

    def __iter__(self):
        for k in sorted(self.st.objs):
            if k.startswith(self.prefix or ''):
                yield _Obj(self.st, k)

    def delete(self):
        for k in [o.key for o in self]:
            self.st.mutate('delete', k)


class _Objects(object):
    def __init__(self, st):
        self.st = st

    def filter(self, Prefix=None):
        return _Coll(self.st, Prefix)

    def all(self):
        return _Coll(self.st, '')


class _Bucket(object):
    def __init__(self, st):
        self.objects = _Objects(st)


class _Resource(object):
    def __init__(self, st):
        self.st = st

    def Bucket(self, name):
        return _Bucket(self.st)


class _Client(object):
    def __init__(self, st):
        self.st = st

    def put_object(self, Bucket, Key, Body, **kw):
        if isinstance(Body, str):
            Body = Body.encode('utf-8')
        self.st.mutate('put', Key, (bytes(Body), self.st.clock(), kw))
        return {}

    def get_object(self, Bucket, Key):
        self.st.reads += 1
        if Key not in self.st.objs:
            raise NoSuchKey(Key)
        return {'Body': io.BytesIO(self.st.objs[Key][0])}


class FakeBoto3(object):
    """Stands in for the boto3 module inside s3_basic_facade; the store it serves is switchable per case."""

    def __init__(self):
        self.store = Store()

    def resource(self, name, **kw):
        return _Resource(self.store)

    def client(self, name, region_name=None, **kw):
        return _Client(self.store)


FAKE = FakeBoto3()
_installed = []


def install():
    """Rebinds whatever global of s3_basic_facade holds the boto3 module (found by identity or by name)."""
    import sys
    import playback.tape_cassettes.s3.s3_basic_facade as F
    if _installed:
        return _installed
    real = sys.modules.get('boto3')
    names = [n for n, v in vars(F).items() if v is real and real is not None] or (['boto3'] if hasattr(F, 'boto3') else [])
    for n in names:
        setattr(F, n, FAKE)
    _installed.extend(names)
    return names


def new_store(clock=None):
    FAKE.store = Store(clock)
    return FAKE.store


def install_s3_clock(clock_fn):
    """s3_tape_cassette reads datetime.today()/utcnow(): follow the harness clock (a naive UTC datetime)."""
    import playback.tape_cassettes.s3.s3_tape_cassette as S
    real = datetime.datetime

    class FakeDT(real):
        @classmethod
        def today(cls):
            return clock_fn()

        @classmethod
        def utcnow(cls):
            return clock_fn()

        @classmethod
        def now(cls, tz=None):
            return clock_fn()
    names = [n for n, v in vars(S).items() if v is real or (isinstance(v, type) and issubclass(v, real) and v.__name__ == 'FakeDT')]
    for n in names:
        setattr(S, n, FakeDT)
    return names
