"""In-memory fake of exactly what S3BasicFacade uses from boto3, with a mutation log (DESIGN §2.4).

Assumptions (recorded in evidence): S3 is strongly consistent read-after-write, lists in lexicographic key order, a single
put/delete of one object is atomic. boto3 itself is not exercised."""
from __future__ import annotations

import datetime
import io

import pytz


class NoSuchKey(Exception):
    pass


class Store(object):
    def __init__(self, clock=None):
        self.objs = {}      # key -> (bytes, last_modified, extra)
        self.log = []       # ('put'|'delete', key, actor)
        self.snaps = []     # bucket snapshot BEFORE each logged mutation (for crash-point enumeration)
        self.clock = clock or (lambda: datetime.datetime(2020, 1, 1, tzinfo=pytz.utc))
        self.actor = None
        self.reads = 0
        self.put_hook = None

    def snapshot(self):
        return dict(self.objs)

    def mutate(self, kind, key, value=None):
        self.snaps.append(self.snapshot())
        self.log.append((kind, key, self.actor))
        if kind == 'put':
            self.objs[key] = value
        else:
            del self.objs[key]


PAGE = 1000   # S3 pages listings and bulk deletes at 1000 keys


def _unmodelled(what):
    from mc.core import HarnessError
    raise HarnessError('the fake S3 layer does not model %s: extend mc/fakes3.py (this is not a verdict about the code under test)' % what)


class _Obj(object):
    def __init__(self, st, key):
        self.st, self.key = st, key
        self.bucket_name = 'bucket'

    @property
    def last_modified(self):
        return self.st.objs[self.key][1]

    @property
    def size(self):
        return len(self.st.objs[self.key][0])

    @property
    def content_length(self):
        return self.size

    def load(self):
        if self.key not in self.st.objs:
            raise NoSuchKey(self.key)

    def get(self, **kw):
        self.st.reads += 1
        if self.key not in self.st.objs:
            raise NoSuchKey(self.key)
        return {'Body': io.BytesIO(self.st.objs[self.key][0]), 'LastModified': self.st.objs[self.key][1], 'ContentLength': len(self.st.objs[self.key][0])}

    def put(self, Body=b'', **kw):
        return _Client(self.st).put_object(Bucket='bucket', Key=self.key, Body=Body, **kw)

    def delete(self, **kw):
        if self.key in self.st.objs:
            self.st.mutate('delete', self.key)
        return {}

    def __getattr__(self, n):
        _unmodelled('s3.Object.%s' % n)


class _Coll(object):
    def __init__(self, st, prefix, limit=None):
        self.st, self.prefix, self._limit = st, prefix, limit

    def __iter__(self):
        n = 0
        for k in sorted(self.st.objs):
            if k.startswith(self.prefix or ''):
                if self._limit is not None and n >= self._limit:
                    return
                n += 1
                yield _Obj(self.st, k)

    def filter(self, Prefix=None, **kw):
        if kw:
            _unmodelled('objects.filter(%s)' % sorted(kw))
        return _Coll(self.st, (Prefix or '') if not self.prefix else self.prefix, self._limit)

    def limit(self, n):
        return _Coll(self.st, self.prefix, n)

    def page_size(self, n):
        return self

    def all(self):
        return self

    def delete(self):   # the resource collection paginates by itself
        for k in [o.key for o in self]:
            self.st.mutate('delete', k)
        return [{}]

    def __getattr__(self, n):
        _unmodelled('objects collection .%s' % n)


class _Objects(object):
    def __init__(self, st):
        self.st = st

    def filter(self, Prefix=None, **kw):
        if kw:
            _unmodelled('objects.filter(%s)' % sorted(kw))
        return _Coll(self.st, Prefix)

    def all(self):
        return _Coll(self.st, '')

    def limit(self, n):
        return _Coll(self.st, '', n)

    def delete(self):
        return _Coll(self.st, '').delete()

    def __getattr__(self, n):
        _unmodelled('bucket.objects.%s' % n)


class _Bucket(object):
    def __init__(self, st, name='bucket'):
        self.st = st
        self.name = name
        self.objects = _Objects(st)

    def Object(self, key):
        return _Obj(self.st, key)

    def put_object(self, Key, Body=b'', **kw):
        _Client(self.st).put_object(Bucket=self.name, Key=Key, Body=Body, **kw)
        return _Obj(self.st, Key)

    def delete_objects(self, Delete):
        return _Client(self.st).delete_objects(Bucket=self.name, Delete=Delete)

    def __getattr__(self, n):
        _unmodelled('s3.Bucket.%s' % n)


class _Resource(object):
    def __init__(self, st):
        self.st = st

    def Bucket(self, name):
        return _Bucket(self.st, name)

    def Object(self, bucket, key):
        return _Obj(self.st, key)

    def __getattr__(self, n):
        _unmodelled('boto3.resource("s3").%s' % n)


class _Client(object):
    def __init__(self, st):
        self.st = st

    def put_object(self, Bucket, Key, Body=b'', **kw):
        if isinstance(Body, str):
            Body = Body.encode('utf-8')
        if hasattr(Body, 'read'):
            Body = Body.read()
        hook = self.st.put_hook
        if hook is not None:
            hook(Key)     # fault injection: may raise before the request is applied
        self.st.mutate('put', Key, (bytes(Body), self.st.clock(), kw))
        return {}

    def get_object(self, Bucket, Key, **kw):
        self.st.reads += 1
        if Key not in self.st.objs:
            raise NoSuchKey(Key)
        return {'Body': io.BytesIO(self.st.objs[Key][0]), 'LastModified': self.st.objs[Key][1], 'ContentLength': len(self.st.objs[Key][0])}

    def head_object(self, Bucket, Key, **kw):
        if Key not in self.st.objs:
            raise NoSuchKey(Key)
        return {'LastModified': self.st.objs[Key][1], 'ContentLength': len(self.st.objs[Key][0])}

    def delete_object(self, Bucket, Key, **kw):
        if Key in self.st.objs:
            self.st.mutate('delete', Key)
        return {}

    def delete_objects(self, Bucket, Delete, **kw):
        keys = [o['Key'] for o in Delete.get('Objects', [])]
        if len(keys) > PAGE:
            raise ValueError('MalformedXML: at most 1000 keys per delete_objects request')
        for k in keys:
            if k in self.st.objs:
                self.st.mutate('delete', k)
        return {'Deleted': [{'Key': k} for k in keys]}

    def _list(self, Prefix='', MaxKeys=PAGE, start_after=None):
        keys = [k for k in sorted(self.st.objs) if k.startswith(Prefix or '') and (start_after is None or k > start_after)]
        page = keys[:min(MaxKeys or PAGE, PAGE)]
        return page, len(keys) > len(page)

    def list_objects_v2(self, Bucket, Prefix='', MaxKeys=PAGE, ContinuationToken=None, StartAfter=None, **kw):
        page, more = self._list(Prefix, MaxKeys, ContinuationToken or StartAfter)
        out = {'KeyCount': len(page), 'IsTruncated': more, 'Contents': [{'Key': k, 'LastModified': self.st.objs[k][1], 'Size': len(self.st.objs[k][0])} for k in page]}
        if not page:
            out.pop('Contents')
        if more:
            out['NextContinuationToken'] = page[-1]
        return out

    def list_objects(self, Bucket, Prefix='', MaxKeys=PAGE, Marker=None, **kw):
        page, more = self._list(Prefix, MaxKeys, Marker)
        out = {'IsTruncated': more, 'Contents': [{'Key': k, 'LastModified': self.st.objs[k][1], 'Size': len(self.st.objs[k][0])} for k in page]}
        if not page:
            out.pop('Contents')
        if more:
            out['NextMarker'] = page[-1]
        return out

    def get_paginator(self, name):
        client = self
        if name not in ('list_objects_v2', 'list_objects'):
            _unmodelled('paginator %s' % name)

        class _P(object):
            def paginate(self, **kw):
                token = None
                while True:
                    r = client.list_objects_v2(ContinuationToken=token, **kw)
                    yield r
                    if not r['IsTruncated']:
                        return
                    token = r['NextContinuationToken']
        return _P()

    @property
    def exceptions(self):
        import types
        return types.SimpleNamespace(NoSuchKey=NoSuchKey, ClientError=NoSuchKey)

    def __getattr__(self, n):
        _unmodelled('boto3.client("s3").%s' % n)


class FakeBoto3(object):
    """Stands in for the boto3 module inside s3_basic_facade; the store it serves is switchable per case."""

    def __init__(self):
        self.store = Store()

    def resource(self, name, **kw):
        return _Resource(self.store)

    def client(self, name, region_name=None, **kw):
        return _Client(self.store)

    def Session(self, *a, **k):
        return self

    def __getattr__(self, n):
        _unmodelled('boto3.%s' % n)


FAKE = FakeBoto3()
_installed = []


def install():
    """Rebinds, in every loaded module of the library, whatever global holds the boto3 module or one of its entry points
    (`from boto3 import client` ...), found by identity; returns the names rebound."""
    import sys
    import playback.tape_cassettes.s3.s3_basic_facade as F
    import playback.tape_cassettes.s3.s3_tape_cassette   # noqa: F401  (so that it is scanned too)
    if _installed:
        return _installed
    real = sys.modules.get('boto3')
    entry = {}
    if real is not None:
        for attr in ('client', 'resource', 'Session'):
            if hasattr(real, attr):
                entry[id(getattr(real, attr))] = getattr(FAKE, attr)
    for mname, mod in list(sys.modules.items()):
        if not mname.startswith('playback.') or mod is None:
            continue
        for n, v in list(vars(mod).items()):
            if real is not None and v is real:
                setattr(mod, n, FAKE)
                _installed.append('%s.%s' % (mname, n))
            elif id(v) in entry and callable(v):
                setattr(mod, n, entry[id(v)])
                _installed.append('%s.%s' % (mname, n))
    if not _installed and hasattr(F, 'boto3'):
        F.boto3 = FAKE
        _installed.append('playback.tape_cassettes.s3.s3_basic_facade.boto3')
    if not _installed:
        from mc.core import HarnessError
        raise HarnessError('no boto3 entry point found in the library modules: the S3 seam scan must be extended')
    return _installed


def new_store(clock=None):
    FAKE.store = Store(clock)
    return FAKE.store


def install_s3_clock(clock_fn):
    """s3_tape_cassette reads datetime.today()/utcnow(): follow the harness clock (a naive UTC datetime)."""
    import playback.tape_cassettes.s3.s3_tape_cassette as S
    real = datetime.datetime

    class FakeDT(real):
        @classmethod
        def today(cls):
            return clock_fn()

        @classmethod
        def utcnow(cls):
            return clock_fn()

        @classmethod
        def now(cls, tz=None):
            return clock_fn() if tz is None else clock_fn().replace(tzinfo=datetime.timezone.utc).astimezone(tz)
    names = [n for n, v in vars(S).items() if v is real or (isinstance(v, type) and issubclass(v, real) and v.__name__ == 'FakeDT')]
    for n in names:
        setattr(S, n, FakeDT)
    import types
    for n, v in list(vars(S).items()):   # the module imported as a whole (`import datetime`) instead of the class
        if v is datetime or getattr(v, '_mc_datetime_shim', False):
            shim = types.SimpleNamespace(**{k: getattr(datetime, k) for k in dir(datetime) if not k.startswith('__')})
            shim.datetime = FakeDT
            shim._mc_datetime_shim = True
            setattr(S, n, shim)
            names.append(n)
    return names
