"""Worker-thread programs on the real recorder under the controlled scheduler (shared by C04 and C01)."""
from __future__ import annotations

from mc import progs as P, sched as S

TRACE_FILES = ('playback/tape_recorder.py', 'memory/memory_recording.py', 'playback/recording.py')
FINE_ATTRS = ('_active_recording', '_active_recording_parameters', '_invoke_counter')


def _spawner(s):
    def spawn(fns):
        ts = [s.spawn(fn, 'worker%d' % i) for i, fn in enumerate(fns)]
        s.point(('spawned',))
        s.block_until(lambda: all(t.done for t in ts), ('join-workers',))
    return spawn


def fine_attrs(tr):
    """Attribute names whose accesses get opcode granularity: the recorder's per-recording state. If those names are gone (a rename),
    every private instance attribute of the recorder that is not a collaborator object is taken instead."""
    import threading
    have = [a for a in FINE_ATTRS if a in vars(tr)]
    if have:
        return tuple(have)
    return tuple(k for k, v in vars(tr).items() if k.startswith('_') and not isinstance(v, threading.local) and not hasattr(v, 'getrandbits')
                 and not hasattr(v, 'create_new_recording'))


def record_under(prog, prefix, fine=False, max_steps=8000):
    """Records prog (with 'par' steps) on a fresh real recorder under the schedule `prefix`."""
    s = S.Sched(prefix, trace_files=TRACE_FILES, opcode_attrs=FINE_ATTRS if fine else (), max_steps=max_steps)
    env = P.Env(name=prog.get('cls', 'Op'), kind=prog.get('kind', 'inst'), ext=prog.get('ext'), params=prog.get('params'), funcs=prog.get('funcs'))
    if fine:
        s.opcode_attrs = set(fine_attrs(env.tr))
    P.RT.reset()
    P.RT.spawn = _spawner(s)
    box = {}

    def main():
        box['r'] = P.record(prog, env=env)
        box['end'] = P.RT.last_end
    s.spawn(main, 'main')
    ok = s.run()
    return s, {'ok': ok, 'r': box.get('r'), 'end': box.get('end'), 'env': env, 'deadlock': s.deadlock, 'horizon': s.horizon,
               'thread_errors': [(t.name, repr(t.exc)) for t in s.threads if t.exc is not None]}


def replay_under(stored, rec_id, prog, prefix, fine=False, max_steps=8000):
    """Replays a stored recording (held by a copy of the in-memory cassette it was recorded into) under the schedule `prefix`."""
    import copy
    s = S.Sched(prefix, trace_files=TRACE_FILES, opcode_attrs=FINE_ATTRS if fine else (), max_steps=max_steps)
    inner = copy.deepcopy(stored)
    env = P.Env(inner=inner, kind=prog.get('kind', 'inst'), funcs=prog.get('funcs'), enabled=False)
    if fine:
        s.opcode_attrs = set(fine_attrs(env.tr))
    P.RT.reset()
    P.RT.spawn = _spawner(s)
    box = {}

    def main():
        box['p'] = P.replay(env, rec_id, prog)
    s.spawn(main, 'main')
    ok = s.run()
    return s, {'ok': ok, 'p': box.get('p'), 'deadlock': s.deadlock, 'horizon': s.horizon}


def twin_sequential(prog):
    P.RT.spawn = lambda fns: [f() for f in fns]
    return P.twin(prog)
