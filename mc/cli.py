from __future__ import annotations

import argparse
import importlib
import json
import os
import sys

from mc import core


def main():
    ap = argparse.ArgumentParser()
    sub = ap.add_subparsers(dest='cmd', required=True)
    c = sub.add_parser('check')
    c.add_argument('id')
    c.add_argument('--tier', default=os.environ.get('VERIF_TIER', 'quick'), choices=['quick', 'thorough'])
    c.add_argument('--workers', type=int, default=None)
    r = sub.add_parser('replay')
    r.add_argument('path')
    sub.add_parser('selfcheck')
    a = ap.parse_args()
    seed = int(os.environ.get('VERIF_SEED', '0') or 0)
    try:
        core.bind_repo()
        if a.cmd == 'selfcheck':
            import jsonpickle
            assert jsonpickle.__version__ == '0.9.3', jsonpickle.__version__
            assert sys.version_info[:2] == (3, 12)
            print('selfcheck ok: playback from %s' % core.REPO)
            return 0
        if a.cmd == 'check':
            mod = importlib.import_module('mc.checks.' + a.id.lower())
            return core.run_check(mod, a.tier, seed, a.workers)
        if a.cmd == 'replay':
            with open(a.path) as f:
                body = json.load(f)
            mod = importlib.import_module(body['module'])
            print('replaying %s case=%s' % (body['property'], json.dumps(body['case'])[:2000]))
            print('recorded violation: %s' % json.dumps(body['violation'])[:2000])
            core._winit(mod.__name__)
            if 'schedule' in body['violation'] and hasattr(mod, 'replay_one'):
                # a schedule-based violation: re-execute exactly that one schedule, without the explorer
                print('re-executing the single recorded schedule (%d choices)' % len(body['violation']['schedule'] if isinstance(body['violation']['schedule'], list) else body['violation']['schedule'].get('choices', [])))
                res = {'viol': mod.replay_one(body['case'], body['violation']), 'obs': 'single schedule'}
            else:
                res = core.run_case_guarded(mod, body['case'])
            sigs = [v['sig'] for v in res.get('viol', ())]
            for v in res.get('viol', ()):
                print('  reproduced: sig=%s\n    expected=%s\n    observed=%s' % (v['sig'], v.get('expected'), v.get('observed')))
            if body['violation']['sig'] in sigs:
                print('VIOLATION property=%s replay=%s' % (body['property'], a.path))
                return 1
            print('not reproduced on the current tree (observation: %s)' % str(res.get('obs'))[:500])
            return 0
    except core.HarnessError as e:
        sys.stderr.write('HARNESS ERROR: %s\n' % e)
        return 2
    except RuntimeError as e:
        if str(e).startswith('HARNESS ERROR'):
            sys.stderr.write('%s\n' % e)
            return 2
        raise


if __name__ == '__main__':
    sys.exit(main())
