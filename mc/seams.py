"""Seams are found by scanning module globals for the real primitives, not assumed by name (DESIGN §2.6)."""
from __future__ import annotations

import datetime as _dt
import time as _time


def rebind(module, real, replacement):
    """Rebinds every global of `module` that IS `real`; returns the names rebound."""
    names = [n for n, v in list(vars(module).items()) if v is real]
    for n in names:
        setattr(module, n, replacement)
    return names


def install_recorder_clock(clock_fn):
    """tape_recorder reads time() and datetime.utcnow(): both follow the harness clock. Every way the module could reach the clock
    is covered (the function or class imported by name, or the `time` / `datetime` module itself; wall, monotonic and performance
    counters; naive-local, naive-UTC and aware constructors), so that an equivalent rewrite stays on the harness clock."""
    import types
    import playback.tape_recorder as T
    EPOCH = _dt.datetime(2020, 1, 1)
    LOCAL = _dt.timedelta(hours=9)   # the simulated process runs in a UTC+9 local zone: local-time constructors differ from UTC ones

    def utc_at(ts):
        return EPOCH + _dt.timedelta(seconds=ts)

    def aware(naive_utc, tz):
        return naive_utc.replace(tzinfo=_dt.timezone.utc).astimezone(tz)

    class FakeDT(_dt.datetime):
        @classmethod
        def utcnow(cls):
            return utc_at(clock_fn())

        @classmethod
        def today(cls):
            return utc_at(clock_fn()) + LOCAL

        @classmethod
        def now(cls, tz=None):
            return utc_at(clock_fn()) + LOCAL if tz is None else aware(utc_at(clock_fn()), tz)

        @classmethod
        def fromtimestamp(cls, ts, tz=None):
            return utc_at(ts) + LOCAL if tz is None else aware(utc_at(ts), tz)

        @classmethod
        def utcfromtimestamp(cls, ts):
            return utc_at(ts)
    clock = lambda: clock_fn()
    clock_ns = lambda: int(clock_fn() * 1e9)
    tshim = types.SimpleNamespace(**{k: getattr(_time, k) for k in dir(_time) if not k.startswith('__')})
    tshim.time = tshim.monotonic = tshim.perf_counter = clock
    tshim.time_ns = tshim.monotonic_ns = tshim.perf_counter_ns = clock_ns
    dshim = types.SimpleNamespace(**{k: getattr(_dt, k) for k in dir(_dt) if not k.startswith('__')})
    dshim.datetime = FakeDT
    found = []
    if not getattr(T, '_mc_clock', False):
        for real in (_time.time, _time.monotonic, _time.perf_counter):
            found += rebind(T, real, clock)
        for real in (_time.time_ns, _time.monotonic_ns, _time.perf_counter_ns):
            found += rebind(T, real, clock_ns)
        found += rebind(T, _dt.datetime, FakeDT)
        found += rebind(T, _time, tshim)
        found += rebind(T, _dt, dshim)
        T._mc_clock = True
        T._mc_found = found
    return T._mc_found
