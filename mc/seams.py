"""Seams are found by scanning module globals for the real primitives, not assumed by name (DESIGN §2.6)."""
from __future__ import annotations

import datetime as _dt
import time as _time


def rebind(module, real, replacement):
    """Rebinds every global of `module` that IS `real`; returns the names rebound."""
    names = [n for n, v in list(vars(module).items()) if v is real]
    for n in names:
        setattr(module, n, replacement)
    return names


def install_recorder_clock(clock_fn):
    """tape_recorder reads time() and datetime.utcnow(): both follow the harness clock."""
    import playback.tape_recorder as T

    class FakeDT(_dt.datetime):
        @classmethod
        def utcnow(cls):
            return _dt.datetime(2020, 1, 1) + _dt.timedelta(seconds=clock_fn())

        # the simulated process runs in a UTC+9 local zone: local-time constructors differ from utcnow()
        @classmethod
        def today(cls):
            return cls.utcnow() + _dt.timedelta(hours=9)

        @classmethod
        def now(cls, tz=None):
            return cls.utcnow() + _dt.timedelta(hours=9)
    found = []
    if not getattr(T, '_mc_clock', False):
        found += rebind(T, _time.time, lambda: clock_fn())
        found += rebind(T, _dt.datetime, FakeDT)
        T._mc_clock = True
        T._mc_found = found
    return T._mc_found
