"""Controlled thread scheduler (baton passing over real threads) + stateless DFS with iterative preemption bounding.

Exactly one virtual thread runs at a time.  Scheduling points:
  * every line event (sys.settrace) in the traced files; every opcode event inside functions whose code mentions one of the
    `opcode_attrs` (selected from co_names, not from function names);
  * every operation of the virtual Lock / Event / Thread / Queue that replace the real ones.
Waiting is visible: a blocked thread is simply not enabled; "no enabled thread" is a deadlock.
A thread standing at a point is enabled; switching away from it costs one preemption.  Only really blocked threads and timed
waits are left for free.  `Event.wait(timeout)` is released by the flag or by an environment choice "timer fires" drawn from a
per-execution budget.
"""
from __future__ import annotations

import sys
import threading

REAL_THREAD = threading.Thread
REAL_SEM = threading.Semaphore


class Abort(BaseException):
    pass


class Divergence(Exception):
    pass


_POOL = []


class _PoolWorker(object):
    """A reusable OS thread: creating five OS threads per explored execution dominated the cost (and scaled badly across processes)."""

    def __init__(self):
        self.job_sem = REAL_SEM(0)
        self.job = None
        self.real = REAL_THREAD(target=self._loop, name='mc-sched-worker', daemon=True)
        self.real.start()

    def _loop(self):
        while True:
            self.job_sem.acquire()
            job, self.job = self.job, None
            try:
                job()
            finally:
                _POOL.append(self)


class VThread(object):
    def __init__(self, sched, tid, fn, name):
        self.s, self.tid, self.fn, self.name = sched, tid, fn, name
        self.sem = REAL_SEM(0)
        self.fin = REAL_SEM(0)
        self.done = False
        self.blocked_on = None
        self.timed = False
        self.killed = False
        self.exc = None
        self.worker = _POOL.pop() if _POOL else _PoolWorker()

    def start(self):
        self.worker.job = self._run
        self.worker.job_sem.release()

    def _run(self):
        self.sem.acquire()
        try:
            if self.s.aborting:
                raise Abort()
            threading.current_thread().name = self.name
            sys.settrace(self.s._trace)
            self.fn()
        except Abort:
            pass
        except BaseException as e:  # noqa
            self.exc = e
        finally:
            sys.settrace(None)
            self.done = True
            try:
                self.s._thread_finished(self)
            finally:
                self.fin.release()


class Sched(object):
    def __init__(self, prefix=(), trace_files=(), opcode_attrs=(), timer_budget=0, max_steps=4000):
        self.prefix = list(prefix)
        self.files = tuple(trace_files)
        self.opcode_attrs = set(opcode_attrs)
        self.timer_budget = timer_budget
        self.max_steps = max_steps
        self.threads = []
        self.cur = None
        self.choices = []
        self.points = []       # (number of options, running thread enabled and not at a voluntary wait)
        self.labels = []
        self.aborting = False
        self.deadlock = False
        self.horizon = False
        self.main_sem = REAL_SEM(0)
        self.steps = 0
        self.switches = 0
        self._fine = {}
        self.record_labels = False
        self.locks = []        # every scheduler-owned lock created during this execution

    # ---- threads
    def spawn(self, fn, name=None):
        t = VThread(self, len(self.threads), fn, name or 't%d' % len(self.threads))
        self.threads.append(t)
        t.start()
        return t

    def _enabled(self):
        return [t for t in self.threads if not t.done and not t.killed and (t.blocked_on is None or t.blocked_on())]

    # ---- tracing
    def _is_fine(self, code):
        r = self._fine.get(code)
        if r is None:
            r = bool(self.opcode_attrs & set(code.co_names))
            self._fine[code] = r
        return r

    def _trace(self, frame, event, arg):
        fn = frame.f_code.co_filename
        if not fn.endswith(self.files):
            return None
        if event == 'call':
            if self.opcode_attrs and self._is_fine(frame.f_code):
                frame.f_trace_opcodes = True
            return self._trace
        try:
            if event == 'line' and not frame.f_trace_opcodes:
                self.point(('line', frame.f_code.co_name, frame.f_lineno))
            elif event == 'opcode':
                self.point(('op', frame.f_code.co_name, frame.f_lasti))
        except Abort:
            # An exception leaving a trace function makes CPython drop the thread's trace function, and CPython 3.12.1 then calls
            # the dropped (NULL) function at the next opcode event of any frame that still has f_trace_opcodes set, e.g. in the
            # clean-up code of a `with` or `finally` the unwinding passes through (segmentation fault). Switch them off first.
            f = frame
            while f is not None:
                if f.f_trace_opcodes:
                    f.f_trace_opcodes = False
                f = f.f_back
            raise
        return self._trace

    # ---- scheduling
    def point(self, label=None):
        if self.aborting:
            raise Abort()
        self._switch(self.cur, label)

    def block_until(self, cond, label=None, timed=False):
        me = self.cur
        me.blocked_on = cond
        me.timed = timed
        try:
            self._switch(me, label)
        finally:
            me.blocked_on = None
            me.timed = False

    def _choose(self, me):
        en = self._enabled()
        if not en:
            return None
        me_en = me is not None and me in en
        # leaving a thread is free only if it really cannot continue (blocked) or sleeps in a timed wait; a thread standing at
        # the acquire of a FREE lock is runnable: switching away from it is a preemption like anywhere else
        voluntary = me is not None and (me.timed or (me.blocked_on is not None and not me_en))
        order = ([me] if me_en and not voluntary else []) + [t for t in en if t is not me] + ([me] if me_en and voluntary else [])
        i = len(self.choices)
        if i < len(self.prefix):
            c = self.prefix[i]
            if c >= len(order):
                raise Divergence('replay diverged at point %d: choice %d of %d' % (i, c, len(order)))
        else:
            c = 0
        self.choices.append(c)
        self.points.append((len(order), me_en and not voluntary))
        return order[c]

    def _switch(self, me, label):
        self.steps += 1
        if self.steps > self.max_steps:
            self.horizon = True
            self._abort()
        if self.record_labels:
            self.labels.append((me.name if me else None, label))
        try:
            nxt = self._choose(me)
        except Divergence:
            self.diverged = True
            self._abort()
        if nxt is None:
            self.deadlock = True
            self._abort()
        if nxt is me:
            return
        self.switches += 1
        self.cur = nxt
        nxt.sem.release()
        me.sem.acquire()
        if self.aborting:
            raise Abort()

    def _abort(self):
        self.aborting = True
        self.main_sem.release()
        raise Abort()

    def _thread_finished(self, t):
        if self.aborting:
            return
        try:
            nxt = self._choose(None)
        except Divergence:
            self.diverged = True
            self.aborting = True
            self.main_sem.release()
            return
        if nxt is None:
            if any(not x.done and not x.killed for x in self.threads):
                self.deadlock = True
                self.aborting = True
            self.main_sem.release()
            return
        self.cur = nxt
        nxt.sem.release()

    diverged = False

    def run(self):
        """Called from the real main thread after the initial threads were spawned."""
        nxt = self._choose(None)
        self.cur = nxt
        nxt.sem.release()
        self.main_sem.acquire()
        leftover = [t for t in self.threads if not t.done]
        if leftover:   # aborted execution, or threads frozen for ever (killed virtual processes): unwind them
            self.aborting = True
            for t in leftover:
                t.sem.release()
        for t in self.threads:
            if not t.fin.acquire(timeout=10):
                raise Divergence('a scheduler thread did not unwind')
        self.aborting = True   # the execution is over: any late call from a finalizer raises Abort instead of waiting
        if self.diverged:
            raise Divergence('schedule prefix diverged: nondeterminism not owned')
        return not self.deadlock and not self.horizon

    # ---- virtual primitives
    def Lock(self):
        return VLock(self)

    def Event(self):
        return VEvent(self)

    def RLock(self):
        return VRLock(self)

    def Condition(self, lock=None):
        return VCondition(self, lock)

    def Semaphore(self, value=1):
        return VSemaphore(self, value)

    def Thread(self, group=None, target=None, name=None, args=(), kwargs=None, daemon=None):
        return VThreadShim(self, target, name, args, kwargs or {})


class VLock(object):
    def __init__(self, s):
        self.s = s
        self.owner = None
        s.locks.append(self)

    def acquire(self, blocking=True, timeout=-1):
        self.s.block_until(lambda: self.owner is None, ('lock.acquire',))
        self.owner = self.s.cur
        return True

    def release(self):
        self.owner = None
        self.s.point(('lock.release',))

    def locked(self):
        return self.owner is not None

    def __enter__(self):
        self.acquire()
        return self

    def __exit__(self, *a):
        self.release()


class VRLock(object):
    def __init__(self, s):
        self.s = s
        self.owner = None
        self.count = 0
        s.locks.append(self)

    def acquire(self, blocking=True, timeout=-1):
        me = self.s.cur
        if self.owner is me:
            self.count += 1
            return True
        self.s.block_until(lambda: self.owner is None, ('rlock.acquire',))
        self.owner = self.s.cur
        self.count = 1
        return True

    def release(self):
        if self.owner is not self.s.cur:
            raise RuntimeError('cannot release un-acquired lock')
        self.count -= 1
        if self.count == 0:
            self.owner = None
            self.s.point(('rlock.release',))

    def _release_all(self):
        n, self.count, self.owner = self.count, 0, None
        return n

    def _reacquire(self, n):
        self.s.block_until(lambda: self.owner is None, ('rlock.reacquire',))
        self.owner = self.s.cur
        self.count = n

    def __enter__(self):
        self.acquire()
        return self

    def __exit__(self, *a):
        self.release()


class VCondition(object):
    def __init__(self, s, lock=None):
        self.s = s
        self.lock = lock if lock is not None else VRLock(s)
        self.waiters = []
        self.acquire, self.release = self.lock.acquire, self.lock.release

    def __enter__(self):
        self.lock.acquire()
        return self

    def __exit__(self, *a):
        self.lock.release()

    def wait(self, timeout=None):
        s = self.s
        me = s.cur
        token = [False]
        self.waiters.append(token)
        if isinstance(self.lock, VRLock):
            n = self.lock._release_all()
        else:
            self.lock.owner = None
            n = 1
        if timeout is None:
            s.block_until(lambda: token[0], ('condition.wait',))
        else:
            s.block_until(lambda: token[0] or s.timer_budget > 0, ('condition.wait-timed',), timed=True)
            if not token[0]:
                s.timer_budget -= 1
                s.timer_fired = getattr(s, 'timer_fired', 0) + 1
                if token in self.waiters:
                    self.waiters.remove(token)
        if isinstance(self.lock, VRLock):
            self.lock._reacquire(n)
        else:
            s.block_until(lambda: self.lock.owner is None, ('lock.reacquire',))
            self.lock.owner = s.cur
        return token[0]

    def wait_for(self, predicate, timeout=None):
        r = predicate()
        while not r:
            if not self.wait(timeout) and timeout is not None:
                return predicate()
            r = predicate()
        return r

    def notify(self, n=1):
        for token in self.waiters[:n]:
            token[0] = True
        del self.waiters[:n]
        self.s.point(('condition.notify',))

    def notify_all(self):
        self.notify(len(self.waiters))

    notifyAll = notify_all


class VSemaphore(object):
    def __init__(self, s, value=1):
        self.s = s
        self.value = value

    def acquire(self, blocking=True, timeout=None):
        self.s.block_until(lambda: self.value > 0, ('semaphore.acquire',))
        self.value -= 1
        return True

    def release(self, n=1):
        self.value += n
        self.s.point(('semaphore.release',))

    def __enter__(self):
        self.acquire()
        return self

    def __exit__(self, *a):
        self.release()


class VEvent(object):
    def __init__(self, s):
        self.s = s
        self.flag = False

    def set(self):
        self.flag = True
        self.s.point(('event.set',))

    def clear(self):
        self.flag = False
        self.s.point(('event.clear',))

    def is_set(self):
        self.s.point(('event.is_set',))
        return self.flag

    isSet = is_set

    def wait(self, timeout=None):
        s = self.s
        if timeout is None:
            s.block_until(lambda: self.flag, ('event.wait',))
            return True
        s.block_until(lambda: self.flag or s.timer_budget > 0, ('event.wait-timed',), timed=True)
        if not self.flag:
            s.timer_budget -= 1   # the environment chose "timer fires"
            s.timer_fired = getattr(s, 'timer_fired', 0) + 1
        return self.flag


class VThreadShim(object):
    def __init__(self, s, target, name, args, kwargs):
        self.s, self.target, self.name, self.args, self.kwargs = s, target, name, args, kwargs
        self.t = None
        self.daemon = False

    def setDaemon(self, b):
        self.daemon = b

    def start(self):
        if self.t is not None:
            raise RuntimeError('threads can only be started once')
        self.t = self.s.spawn(lambda: self.target(*self.args, **self.kwargs), self.name or 'thread')
        self.s.point(('thread.start',))

    def join(self, timeout=None):
        if self.t is None:
            raise RuntimeError('cannot join thread before it is started')
        self.s.block_until(lambda: self.t.done, ('thread.join',))

    def is_alive(self):
        return self.t is not None and not self.t.done


# ---------------------------------------------------------------------------------------------- exploration
def explore(run_one, bound, max_execs=None, shard=(0, 1), shard_depth=None, stop_on=None):
    """Stateless DFS over choice prefixes with a preemption bound (Musuvathi-Qadeer iterative context bounding, one bound).
    run_one(prefix) -> (sched, verdict).  Sharding: every shard walks the tree down to `shard_depth` deviations (cheap, and
    identical in every shard because executions are deterministic); the subtrees hanging below that depth are dealt round-robin.
    Returns dict(executions, results=[(choices, verdict)], capped, ...); executions above the shard depth are reported by shard 0 only."""
    # warm-up: CPython 3.12 delivers no opcode events the first time a code object is traced with f_trace_opcodes
    # (instrumentation lags by one call); run the default schedule until two consecutive runs look identical.
    if shard_depth is None:
        shard_depth = 1 if bound <= 1 else 2
    prev = None
    for _ in range(6):
        s, _v = run_one([])
        sig = (tuple(s.points), tuple(s.choices))
        if sig == prev:
            break
        prev = sig
    else:
        raise Divergence('default schedule does not stabilise: nondeterminism not owned')
    stack = [([], 0)]
    results = []
    n = 0
    dealt = 0
    capped = False
    max_points = 0
    multi = 0
    while stack:
        prefix, depth = stack.pop()
        s, verdict = run_one(prefix)
        n += 1
        if depth >= shard_depth or shard[0] == 0 or shard[1] == 1:
            results.append((list(s.choices), verdict))
        if stop_on is not None and stop_on(s, verdict):   # e.g. an execution that does not terminate: report it, do not unroll it
            capped = bool(stack)
            break
        max_points = max(max_points, len(s.points))
        pre = 0
        pres = []
        for i, (nopt, run_en) in enumerate(s.points):
            pres.append(pre)
            if run_en and s.choices[i] != 0:
                pre += 1
        if len(prefix) == 0:
            multi = sum(1 for nopt, _ in s.points if nopt > 1)
        for i in range(len(prefix), len(s.points)):
            nopt, run_en = s.points[i]
            if nopt < 2:
                continue
            cost = pres[i] + (1 if run_en else 0)
            if cost > bound:
                continue
            for alt in range(1, nopt):
                if depth + 1 == shard_depth and shard[1] > 1:
                    dealt += 1
                    if (dealt - 1) % shard[1] != shard[0]:
                        continue
                stack.append((s.choices[:i] + [alt], depth + 1))
        if max_execs is not None and n >= max_execs and stack:
            capped = True
            break
    return {'executions': n, 'results': results, 'capped': capped, 'max_points': max_points, 'branching_points_default': multi}
